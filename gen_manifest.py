#!/usr/bin/env python3
"""Regenerates MANIFEST.json from checks_config.py (claimed checks) and properties.jsonl."""
import json, os, subprocess, sys
ROOT = os.path.dirname(os.path.abspath(__file__))
sys.path.insert(0, ROOT)
from checks_config import PROPS

props = [json.loads(l) for l in open(os.path.join(ROOT, "properties.jsonl")) if l.strip()]
hooks = subprocess.run(["git", "-C", "/repo", "log", "--format=%H %s"], capture_output=True, text=True).stdout.strip().split("\n")
hook_commits = [l.split()[0] for l in hooks if " verif hook:" in " " + l]

checks = []
na = []
for p in props:
    pid = p["id"]
    c = PROPS.get(pid)
    if not c or c.get("unclaimed"):
        na.append({"property_id": pid, "reason": (c or {}).get("unclaimed", "check not built yet in this commit (work in progress; see DESIGN.md section 4 for the planned design)")})
        continue
    checks.append({
        "property_id": pid,
        "quick_cmd": f"./check {pid} quick",
        "thorough_cmd": f"./check {pid} thorough",
        "evidence_file": f"/verif/evidence/{pid}.json",
        "replay_cmd_template": f"./check {pid} --replay {{path}}",
        "engine": "harness",
        "level_claimed": {"category": c["level"], "text": c["level_text"], "design_ref": f"DESIGN.md section 4 {pid}"},
        "level_note": c["level_note"],
        "technique": c["technique"],
    })

m = {
    "version": 1,
    "setup_cmd": "./setup",
    "hooks": {
        "guard": "verif",
        "enable": "go test -tags verif (the harness module /verif/harness replaces the library module with /repo and always builds with -tags verif)",
        "baseline_off_cmd": "cd /repo && go build ./... && go test -vet=off -count=1 -timeout 25m ./...",
        "source_commits": hook_commits,
        "add_only": True,
    },
    "engines": [{
        "name": "harness", "path": "/verif/harness",
        "serves_properties": [c["property_id"] for c in checks],
        "kind_free_text": "one Go module: rapid v1.3.0 property tests (stateful where the property is over histories), small exhaustive enumerators, "
                          "native go fuzz targets in the thorough tier; deterministic network simulator over the real protocol handlers, per-party "
                          "deterministic crypto/rand tapes, independent math/big reference implementations as oracles; python driver ./check shards, merges evidence, triages",
    }],
    "checks": checks,
    "not_applicable": na,
    "notes": "Property-based testing and fuzzing only. Known findings: KNOWN_FINDINGS.jsonl. Seeded mutants: seeded/. See DESIGN.md.",
}
json.dump(m, open(os.path.join(ROOT, "MANIFEST.json"), "w"), indent=1)
print(f"MANIFEST.json: {len(checks)} checks, {len(na)} not_applicable")
