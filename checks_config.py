# Per-property job tables for ./check. "checks" is the total number of rapid cases of a job (split
# over its shards); jobs without "checks" are deterministic enumerations that split themselves by shard.
PROPS = {}

PROPS["C16"] = {
    "pkg": "c16", "level": "exploration",
    "technique": "property-based differential testing (rapid) against independent math/big ECDSA / BIP-340 / ecrecover references, plus published BIP-340 vectors",
    "level_text": "Generated keys, messages and single-field perturbations of valid signatures; every verdict of the library routine is compared with a "
                  "reference implementation written from the standards. Random search with boundary-biased generators: finds disagreement classes, does not prove absence.",
    "level_note": "Trusts the harness reference (self-checked against BIP-340 vectors 0 and 1 and 2G); x >= n nonce points (probability 2^-128) are not generated.",
    "rule": "cases are (routine, key class, message-length class, perturbation) drawn by rapid; a case is non-trivial when the "
            "input is perturbed or on a boundary (key in {1,2,3,n-1,n-2}, message length != 32, high-s form); distinct = distinct class keys",
    "assumptions": ["reference secp256k1/ECDSA/BIP-340 written against math/big from the specifications; self-checked against BIP-340 vectors 0 and 1"],
    "tiers": {
        "quick": [
            {"run": "^TestVectors$"},
            {"run": "^TestECDSAVerify$", "checks": 4000, "shards": 6},
            {"run": "^TestSigEthereum$", "checks": 1500, "shards": 4},
            {"run": "^TestBIP340$", "checks": 4000, "shards": 6},
        ],
        "thorough": [
            {"fuzz": "FuzzECDSAVerify", "fuzztime": "60s", "workers": 4, "timeout": 400},
            {"fuzz": "FuzzBIP340", "fuzztime": "60s", "workers": 4, "timeout": 400},
            {"run": "^TestVectors$"},
            {"run": "^TestECDSAVerify$", "checks": 120000, "shards": 6},
            {"run": "^TestSigEthereum$", "checks": 40000, "shards": 4},
            {"run": "^TestBIP340$", "checks": 120000, "shards": 6},
        ],
    },
}

PROPS["C01"] = {
    "pkg": "c01", "level": "exploration",
    "technique": "property-based testing (rapid): generated (scheme, n, t, signer subset, message, key provenance, delivery schedule) sessions run through the real "
                 "handlers on a deterministic network simulator; oracle = independent math/big ECDSA / Schnorr / BIP-340 verifiers, equality of all parties' "
                 "signatures, completion at quiescence",
    "level_text": "Every generated all-honest signing session (CMP sign, presign+online, presign-full, FROST, FROST-Taproot, Doerner) must complete at every party and "
                  "return byte-identical signatures that an independent textbook verifier accepts under the dealer-known / reference-derived public key. Random search over "
                  "configurations and schedules; CMP volumes are small (seconds per session).",
    "level_note": "Trusts the harness references (self-tested against BIP-340 vectors). Key material mostly from a harness dealer (real keygen/refresh in a minority of cases); "
                  "pools are nil (single-threaded) so that sessions are deterministic.",
    "rule": "case = (protocol, n, t, |S|, subset shape, message-length class, key provenance, identifier family, schedule shape); non-trivial iff the signer subset is not a "
            "sorted prefix/full set, or the message is not 32 bytes, or the key is refreshed/derived, or the schedule reorders/duplicates; distinct = distinct class keys",
    "assumptions": ["authenticated channels, reliable eventual delivery", "reference verifiers are correct (self-tested)"],
    "tiers": {
        "quick": [
            {"run": "^TestFrost$", "checks": 1600, "shards": 5},
            {"run": "^TestDoerner$", "checks": 90, "shards": 3},
            {"run": "^TestCMP$", "checks": 32, "shards": 16, "timeout": 1500},
        ],
        "thorough": [
            {"run": "^TestFrost$", "checks": 30000, "shards": 6},
            {"run": "^TestDoerner$", "checks": 4000, "shards": 4},
            {"run": "^TestCMP$", "checks": 480, "shards": 16, "timeout": 7000},
        ],
    },
}

PROPS["C02"] = {
    "pkg": "c02", "level": "exploration",
    "technique": "property-based testing (rapid): real key generation runs (CMP with injected safe primes, FROST, FROST-Taproot, Doerner) under generated (n, t, identifier "
                 "family, schedule); oracle = byte-equality of every party's public table, own-share/table match and exhaustive (t+1)-subset Lagrange reconstruction computed "
                 "with math/big, both on secrets and in the exponent",
    "level_text": "Each generated keygen session must complete and yield one consistent sharing: identical group key and public table at all parties, own secret matching own "
                  "entry, and EVERY subset of t+1 parties (exhaustively enumerated per session) reconstructing the reported key, checked with an independent reference.",
    "level_note": "CMP keygen uses the verif prime-source hook (primes from a fixed pool of validated safe Blum primes) - the prime search itself is not exercised. Random search "
                  "over configurations/schedules; CMP volumes small.",
    "rule": "case = (scheme, n, t, identifier family, schedule shape); non-trivial iff t < n-1, or identifiers are not single letters, or the schedule reorders/duplicates; "
            "distinct = distinct class keys; counters.reconstruction_subsets = number of (t+1)-subsets checked",
    "assumptions": ["safe primes are injected through hook H1", "reference Lagrange/curve arithmetic is correct"],
    "tiers": {
        "quick": [
            {"run": "^TestSequentialKeygens$", "shards": 5, "timeout": 2400},
            {"run": "^TestFrost$", "checks": 1200, "shards": 5},
            {"run": "^TestDoerner$", "checks": 120, "shards": 3},
            {"run": "^TestCMP$", "checks": 16, "shards": 16, "timeout": 1500},
        ],
        "thorough": [
            {"run": "^TestSequentialKeygens$", "shards": 12, "timeout": 7000},
            {"run": "^TestFrost$", "checks": 40000, "shards": 6},
            {"run": "^TestDoerner$", "checks": 4000, "shards": 4},
            {"run": "^TestCMP$", "checks": 480, "shards": 16, "timeout": 9000},
        ],
    },
}

PROPS["C07"] = {
    "pkg": "c07", "level": "exploration",
    "technique": "exhaustive enumeration (memoised DFS) of delivery interleavings of harness-defined toy protocols through the real handlers, plus property-based "
                 "schedule generation (rapid) for toy/xor/FROST/Doerner/CMP with reordering, duplicates, early and stale arrivals and injected foreign-session traffic; "
                 "oracle = every party completes with the same result bytes as the in-order run under identical per-party randomness",
    "level_text": "For two parties and every round pattern of length <= 3 over {broadcast, p2p, both}, and for three parties with one message round, ALL interleavings are "
                  "enumerated (modulo commuting deliveries to different parties: a party's behaviour depends only on its own delivery order); for three parties and longer "
                  "patterns every delivery order at one party is enumerated. Real protocols are sampled. Each execution must complete everywhere and reproduce the in-order result.",
    "level_note": "Party randomness is fixed through per-party deterministic crypto/rand tapes, so result equality is meaningful. The quotient by commuting deliveries relies on "
                  "handlers of different parties sharing no state (they are separate objects). Foreign/stale messages follow the README loop (dropped when CanAccept is false).",
    "rule": "case = one executed schedule; class = (protocol/pattern, n, set of deviation kinds observed in the per-party delivery logs: later-round-first, p2p-before-broadcast, "
            "duplicate, stale, rejected-by-canaccept, foreign kind); non-trivial iff the set is non-empty. Exhaustive spaces contribute one case per distinct complete "
            "per-party-order class (counters.exhaustive_complete_interleaving_classes) and are listed under exhaustive_subspaces",
    "assumptions": ["authenticated, eventually reliable channels", "handlers of different parties share no state"],
    "tiers": {
        "quick": [
            {"run": "^TestToyExhaustive$", "shards": 8},
            {"run": "^TestToyRandom$", "checks": 4000, "shards": 3},
            {"run": "^TestFrostDoerner$", "checks": 600, "shards": 4},
            {"run": "^TestCMP$", "checks": 16, "shards": 16, "timeout": 1500},
        ],
        "thorough": [
            {"run": "^TestToyExhaustive$", "shards": 16, "timeout": 7000},
            {"run": "^TestToyRandom$", "checks": 150000, "shards": 4},
            {"run": "^TestFrostDoerner$", "checks": 20000, "shards": 6},
            {"run": "^TestCMP$", "checks": 320, "shards": 16, "timeout": 9000},
        ],
    },
}

PROPS["C18"] = {
    "pkg": "c18", "level": "exploration",
    "technique": "harness-owned scheduling of the pool's synchronisation points (verif yield hooks + goroutine-state introspection): exhaustive DFS over the choice tree for "
                 "small worker/task counts, rapid-generated schedules and call sequences beyond, free-running property tests and stress loops; oracle = exact results, "
                 "return-or-deadlock decided at quiescence, and a worker census after the calls",
    "level_text": "Every pool goroutine and the caller park at each yield point; the harness decides who moves next and waits for quiescence (all parked or blocked in the "
                  "runtime) before each decision, so 'the caller never returns' and 'a worker is lost' are facts of a quiescent state, not timeouts. Small configurations "
                  "(W<=2, count<=2, up to two calls; more in the thorough tier) are enumerated completely; larger ones are sampled. A census (W barrier tasks in flight at "
                  "once) proves that all workers are back after the calls.",
    "level_note": "Not owned: the runtime's choice among several ready select cases and among several workers waiting on the command channel; a replay therefore re-executes "
                  "the recorded choices up to 200 times and counts as reproduced if any attempt fails. Exhaustive = all harness choices; runtime tie-breaks are sampled.",
    "rule": "case = (workers, call sequence, schedule); class = (W, call kinds, total count, whether a caller step separated a worker's counter update from its notification); "
            "non-trivial iff such a separation occurred or the pool was reused for more than one call; exhaustive spaces are listed under exhaustive_subspaces",
    "assumptions": ["goroutine states reported by runtime.Stack are exact (stop-the-world snapshot)"],
    "tiers": {
        "quick": [
            {"run": "^TestLockedReader$", "checks": 3000, "shards": 1},
            {"run": "^TestExhaustiveSmall$", "shards": 14, "timeout": 900},
            {"run": "^TestScheduled$", "checks": 1500, "shards": 1},
            {"run": "^TestFree$", "checks": 300, "shards": 1},
            {"run": "^TestStress$", "shards": 1},
        ],
        "thorough": [
            {"run": "^TestLockedReader$", "checks": 200000, "shards": 2},
            {"run": "^TestExhaustiveSmall$", "shards": 16, "timeout": 7000},
            {"run": "^TestScheduled$", "checks": 60000, "shards": 4},
            {"run": "^TestFree$", "checks": 6000, "shards": 2},
            {"run": "^TestStress$", "shards": 4},
        ],
    },
}

PROPS["C19"] = {
    "pkg": "c19", "level": "exploration",
    "technique": "property-based metamorphic testing (rapid): pairs of typed transcript sequences related by construction (shifted item/domain boundaries, split, merge, "
                 "retype, permute, equal-concatenation identifier lists, sign/type changes of numbers, polynomial flags); oracle both ways: semantically different "
                 "sequences must give different digests, identical ones the same; commitments open exactly to their own (data, decommitment)",
    "level_text": "Adversarially related sequence pairs over 18 item types are hashed with the library; a digest collision between semantically different sequences, or different "
                  "digests for the same sequence, is a violation. Commit/Decommit is checked against the model 'opens iff same data in order and own decommitment', including "
                  "wrong-length, zero, flipped and swapped commitments/decommitments.",
    "level_note": "Semantic identity of items is defined by the harness (type, value); BLAKE3 collisions are assumed not to occur. Random search, boundary-biased by construction.",
    "rule": "case = (relation kind, set of item types involved); non-trivial iff the pair is adversarially related (not two independent sequences); the sub-class "
            "'framing-only=true' marks pairs whose raw concatenated bytes are equal, so that only framing separates them; distinct = distinct class keys",
    "assumptions": ["no BLAKE3 collisions"],
    "tiers": {
        "quick": [
            {"run": "^TestTranscript$", "checks": 60000, "shards": 6},
            {"run": "^TestCommit$", "checks": 30000, "shards": 4},
        ],
        "thorough": [
            {"fuzz": "FuzzTranscript", "fuzztime": "90s", "workers": 6, "timeout": 400},
            {"fuzz": "FuzzCommit", "fuzztime": "60s", "workers": 4, "timeout": 400},
            {"run": "^TestTranscript$", "checks": 2000000, "shards": 10},
            {"run": "^TestCommit$", "checks": 600000, "shards": 6},
        ],
    },
}

PROPS["C11"] = {
    "pkg": "c11", "level": "exploration",
    "technique": "property-based metamorphic testing (rapid) with fault injection on the random source: twin signing contexts differing in exactly one component are run "
                 "under a constant / repeating / honest crypto/rand.Reader; oracle = published nonce commitments (FROST D_i,E_i; BIP-340 R.x) differ",
    "level_text": "For FROST round 1 (both variants) and stand-alone BIP-340 signing, pairs of contexts differing in message, message length, signer set, session id, "
                  "secret share or variant are executed with the system random source replaced by a broken one that returns identical bytes to both; any shared nonce "
                  "commitment is a violation. With an honest source (or BIP-340's nil reader) identical inputs must also differ.",
    "level_note": "Only round 1 of FROST is executed (the commitments are read from the first outgoing broadcast). BIP-340 keys d and n-d are the same key by the standard and are "
                  "not treated as different contexts.",
    "rule": "case = (scheme/variant, differing component, random-source kind); every case is non-trivial (a twin pair); distinct = distinct class keys",
    "assumptions": ["all library randomness flows through crypto/rand.Reader (checked by grep: no math/rand outside tests)"],
    "tiers": {
        "quick": [
            {"run": "^TestFrostNonce$", "checks": 4000, "shards": 8},
            {"run": "^TestBIP340Nonce$", "checks": 8000, "shards": 4},
        ],
        "thorough": [
            {"run": "^TestFrostNonce$", "checks": 150000, "shards": 12},
            {"run": "^TestBIP340Nonce$", "checks": 300000, "shards": 4},
        ],
    },
}

PROPS["C12"] = {
    "pkg": "c12", "level": "exploration",
    "technique": "property-based differential testing (rapid) of Paillier Enc/Dec/Add/Mul/DecWithRandomness/ValidateCiphertexts and the MtA helpers against an independent "
                 "math/big Paillier implementation, on a boundary lattice of plaintexts, nonces, ciphertext candidates and scalars, for keys with and without CRT acceleration",
    "level_text": "Every library result is compared with a textbook big-integer implementation: exact ciphertext equality for encryption with a given nonce, exact integer "
                  "plaintexts after decryption and after homomorphic operations (with symmetric wrap-around), refusal outside the plaintext range, ciphertext validity "
                  "iff unit below N^2, and alpha+beta = a*b over the integers for ProveAffG / ProveAffP with the receiver's share decrypted by the reference.",
    "level_note": "Six 2048-bit key pairs from the fixed prime pool. Random search biased to the boundaries named in the property; operations cost 10-1000 ms so volumes are moderate.",
    "rule": "case = (operation, key kind, operand classes relative to the key: 0, +-1, +-(N-1)/2+-k, 2^k+-1, N+-k, N^2+-k, multiples of p/q, random); non-trivial iff some operand is "
            "on the lattice (not random); distinct = distinct class keys",
    "assumptions": ["reference Paillier is correct (textbook formulas, cross-checked by round trips)"],
    "tiers": {
        "quick": [
            {"run": "^TestEncDec$", "checks": 320, "shards": 4},
            {"run": "^TestHomomorphic$", "checks": 320, "shards": 4},
            {"run": "^TestValidate$", "checks": 2400, "shards": 2},
            {"run": "^TestMtA$", "checks": 96, "shards": 6},
        ],
        "thorough": [
            {"run": "^TestEncDec$", "checks": 12000, "shards": 8},
            {"run": "^TestHomomorphic$", "checks": 12000, "shards": 8},
            {"run": "^TestValidate$", "checks": 100000, "shards": 2},
            {"run": "^TestMtA$", "checks": 3200, "shards": 8},
        ],
    },
}

PROPS["C10"] = {
    "pkg": "c10", "level": "exploration",
    "technique": "property-based testing (rapid) of all 15 proof systems: honest statements built from boundary-lattice witnesses must verify; single perturbations of every "
                 "public input, of the prover context (session tag, party id, extra transcript item) and substitution of every proof field by the same field of another "
                 "valid proof (same and different statement, via reflection; random choice of the field plus a sweep that visits every proof field and public input of every system once) must not verify; forged proofs whose Pedersen equation holds for every challenge (S = 1) "
                 "and whose response is far out of range must be rejected without a panic",
    "level_text": "Completeness on the documented witness ranges (0, +-1, +-(2^l-1), +-(2^l'-1), q-1, random) and binding to statement, context and transcript, checked as an "
                  "executable accept/reject oracle per generated (system, witness class, perturbation, field). A panic inside Verify counts as rejection (counted).",
    "level_note": "Black-box: a challenge that omits an input which the verification equations bind anyway is not observable. Range-soundness (oversized responses with "
                  "consistent equations) needs a harness prover and is covered only where DESIGN.md says so. For nth, witnesses of order <= 2 (rho in {1, N-1}) are used for "
                  "completeness only, because R^e is then independent of e by arithmetic.",
    "rule": "case = (system, witness classes, perturbation kind, perturbed field); non-trivial iff a perturbation is applied or the witness is on the boundary lattice; "
            "distinct = distinct class keys",
    "assumptions": ["Paillier/Pedersen keys from the fixed pool of safe primes"],
    "tiers": {
        "quick": [
            {"run": "^TestCheap$", "checks": 1600, "shards": 16},
            {"run": "^TestCostly$", "checks": 320, "shards": 16},
            {"run": "^TestFieldSweep$", "shards": 16},
        ],
        "thorough": [
            {"run": "^TestCheap$", "checks": 16000, "shards": 16},
            {"run": "^TestCostly$", "checks": 3200, "shards": 16, "timeout": 7000},
            {"run": "^TestFieldSweep$", "shards": 16},
        ],
    },
}

PROPS["C13"] = {
    "pkg": "c13", "level": "exploration",
    "technique": "property-based testing (rapid) of every OT layer driven directly (random, correlated, extended, additive OT, multiplication) with the defining relation of "
                 "each layer as oracle (internal outputs read through reflection), boundary scalars and degenerate choice vectors, every batch size from 1 to 70 bytes plus enumerated large batches around 2^8 and 2^16 transfers (up to 65600), setup reuse (in order, answered in reverse order, and "
                 "honest uses after a rejected altered request), and single-field "
                 "alterations of every OT message with the oracle 'error on the checking side or still the correct product'",
    "level_text": "Layer relations are checked exactly for every batch entry: chosen pad, t_j = q_j xor c_j*Delta, VChoices[j] = V_{c_j}[j], additive shares summing to c_j*alpha_k, "
                  "and share_S + share_R = alpha*beta computed with math/big. Alterations are value-level (another valid point/scalar, flipped bits) at one of 12 sites.",
    "level_note": "Internal outputs (unexported fields) are read with reflect/unsafe; the product oracle is independent (math/big). Random search biased to boundaries.",
    "rule": "case = (layer, choice-vector kind, batch size, setup uses, scalar classes, alteration site); non-trivial iff a scalar is on the boundary lattice, the choice vector is "
            "degenerate, the setup is reused, the batch is not the default, or a message is altered; distinct = distinct class keys",
    "assumptions": [],
    "tiers": {
        "quick": [
            {"run": "^TestRandomOT$", "checks": 1500, "shards": 2},
            {"run": "^TestLayers$", "checks": 480, "shards": 6},
            {"run": "^TestLargeBatches$", "shards": 4},
            {"run": "^TestMultiply$", "checks": 640, "shards": 8},
        ],
        "thorough": [
            {"run": "^TestRandomOT$", "checks": 60000, "shards": 2},
            {"run": "^TestLayers$", "checks": 24000, "shards": 6},
            {"run": "^TestLargeBatches$", "shards": 4},
            {"run": "^TestMultiply$", "checks": 32000, "shards": 8},
        ],
    },
}

PROPS["C14"] = {
    "pkg": "c14", "level": "exploration",
    "technique": "property-based testing (rapid) over derivation histories (keygen, derive at boundary/random indices up to depth 3, interleaved refresh, sign): oracle = an "
                 "independent BIP-32 CKDpub (HMAC-SHA512 + math/big curve arithmetic) for child key and chain code at every party, the C02 sharing-consistency conditions on "
                 "the derived shares, and independent signature verification under the reference-derived child key",
    "level_text": "Real keygen runs (FROST, FROST-Taproot, Doerner; CMP few plus dealt CMP material) followed by generated derive/refresh sequences; after every step all parties "
                  "must hold the same 32-byte chain key and exactly the child key/chain code prescribed by BIP-32, the derived shares must reconstruct the child key for every "
                  "(t+1)-subset, and signing with derived material must verify under the child key.",
    "level_note": "Refresh is not required to preserve the chain key (the statement does not say so); derivation is checked against whatever chain key the parties hold. "
                  "No official BIP-32 vectors are available offline; the reference is written from the specification.",
    "rule": "case = (scheme, material source, n, t, history shape e.g. DRD, whether it signs, whether a boundary index 0/1/2^31-1 occurs); non-trivial iff depth >= 2, or a "
            "boundary index, or non-CMP material; distinct = distinct class keys",
    "assumptions": ["reference CKDpub is correct"],
    "tiers": {
        "quick": [
            {"run": "^TestFrostDoerner$", "checks": 1200, "shards": 8},
            {"run": "^TestCMPDealt$", "checks": 160, "shards": 4},
            {"run": "^TestCMPReal$", "checks": 4, "shards": 4, "timeout": 1500},
        ],
        "thorough": [
            {"run": "^TestFrostDoerner$", "checks": 40000, "shards": 8},
            {"run": "^TestCMPDealt$", "checks": 6000, "shards": 4},
            {"run": "^TestCMPReal$", "checks": 80, "shards": 8, "timeout": 7000},
        ],
    },
}

PROPS["C08"] = {
    "pkg": "c08", "level": "exploration",
    "technique": "model-based property testing (rapid) over generated key life-cycle histories (refresh, serialize+restore, sign, sign with one stale signer, "
                 "reconstruct from shares of chosen epochs) on CMP, FROST, FROST-Taproot and Doerner clusters; the model keeps every epoch's shares and the original key; "
                 "oracle after every step: key unchanged, C02 consistency, shares changed, mixed-epoch reconstructions fail / same-epoch succeed (math/big), signatures valid "
                 "under the original key, stale-signer sessions yield no signature anywhere",
    "level_text": "Histories of up to 7 operations (CMP: 3-5) with up to 3 refreshes are generated and shrunk as one value; each refresh is a real protocol run under a generated "
                  "schedule. The reconstruction oracle and the signature verifier are independent references.",
    "level_note": "With threshold 0 every share equals the key, so 'shares changed' and 'stale signer' are necessarily vacuous there and are skipped. CMP volumes small.",
    "rule": "case = (scheme, source, n, t, executed history shape over R=refresh S=restore G=sign X=stale-sign C=same-epoch reconstruct M=mixed-epoch reconstruct); non-trivial iff a "
            "refresh is followed by a mixed-epoch action, a stale sign or a restore; distinct = distinct class keys",
    "assumptions": ["CMP refresh uses injected safe primes (hook H1)"],
    "tiers": {
        "quick": [
            {"run": "^TestCheap$", "checks": 1500, "shards": 10},
            {"run": "^TestCMP$", "checks": 6, "shards": 6, "timeout": 1500},
        ],
        "thorough": [
            {"run": "^TestCheap$", "checks": 25000, "shards": 10},
            {"run": "^TestCMP$", "checks": 160, "shards": 16, "timeout": 9000},
        ],
    },
}

PROPS["C20"] = {
    "pkg": "c20", "level": "fault_enumeration",
    "technique": "exhaustive enumeration of every (public start function, single invalid parameter) pair over a lattice of 44 invalid-parameter kinds, plus rapid-sampled pairs "
                 "of invalid parameters of different kinds; oracle = handler construction returns an error without panicking, and whatever IS accepted is then run with honest "
                 "peers given the same session-wide parameters and must complete with independently verified results (no crash, no stall)",
    "level_text": "All 17 start functions (5 CMP + presign-full, 6 FROST, 5 Doerner) x all applicable invalid parameters (thresholds around 0/n/2^32, duplicated/missing/empty/foreign "
                  "identifiers, bad signer sets, empty messages, nil/zero/incomplete key material, broken presignatures) are enumerated completely; the two-stage oracle avoids "
                  "flagging parameters a protocol legitimately supports (e.g. empty messages in Doerner).",
    "level_note": "Fixtures: dealt 3-party threshold-1 material, one real Doerner key, real presignatures. A peer that itself refuses the shared parameters simply does not take part.",
    "rule": "case = (start function, set of invalid parameters, observed outcome: refused / accepted-and-valid / ...); every case is non-trivial (an invalid parameter is present); "
            "distinct = distinct class keys; the single-parameter space is exhaustive",
    "exhaustive_claim": False,
    "assumptions": [],
    "tiers": {
        "quick": [
            {"run": "^TestSingles$", "shards": 12, "timeout": 900},
            {"run": "^TestPairs$", "checks": 2000, "shards": 4},
        ],
        "thorough": [
            {"run": "^TestSingles$", "shards": 12, "timeout": 900},
            {"run": "^TestPairs$", "checks": 50000, "shards": 8},
        ],
    },
}

PROPS["C15"] = {
    "pkg": "c15", "level": "exploration",
    "technique": "property-based round-trip and corruption testing (rapid): every stored type is serialised with its documented encoder, restored with its documented decoder, "
                 "compared structurally and used in a follow-up protocol run; encodings are corrupted at tree level (one CBOR node selected by path: null, absent, wrong type, "
                 "zero/truncated/extended bytes, identity point, out-of-range integers, duplicated/dropped entries, sibling copies) and at byte level, and every entry of every "
                 "array-encoded party list is duplicated (identical copy appended / first, copy with another party's data) for every owner of the configuration, which must be refused; oracle = error, or an object "
                 "satisfying the validity predicate of the statement; whole sessions are also run with every wire message crossing Message.MarshalBinary/UnmarshalBinary",
    "level_text": "8 types (cmp.Config, frost.Config, frost.TaprootConfig, doerner.ConfigSender/Receiver, ecdsa.PreSignature, ecdsa.Signature, protocol.Message) for n in 2..4 and "
                  "all t. Restored objects must be equivalent, must work together with the other parties' originals in a later signing session (independent verifier), and "
                  "corrupted encodings must never restore without error into an empty object or one that breaks the validity rules (zero secrets, identity points, moduli "
                  "that are not odd 2048-bit numbers, invalid Pedersen parameters, thresholds outside 0..n-1, missing own entry).",
    "level_note": "The validity predicate is evaluated by the harness on the restored object's public fields. For protocol.Message 'valid' means: the bytes decode as a message "
                  "in an independent struct mirror. Native fuzzing of the decoders is part of the thorough tier.",
    "rule": "case = (type, mode, corruption kind, generic path of the corrupted node) or (type, n, t, whether used in a follow-up run); non-trivial: every corruption case, and "
            "round trips that are used afterwards or concern key material; distinct = distinct class keys",
    "assumptions": [],
    "tiers": {
        "quick": [
            {"run": "^TestCorrupt$", "checks": 24000, "shards": 8},
            {"run": "^TestRoundTrip$", "checks": 320, "shards": 8},
            {"run": "^TestRoundTripMany$", "shards": 2},
            {"run": "^TestWireRoundTrip$", "checks": 200, "shards": 2},
            {"run": "^TestDuplicateParty$", "shards": 1},
            {"run": "^TestWrongSizeModulus$", "shards": 1},
        ],
        "thorough": [
            {"fuzz": "FuzzRestore", "fuzztime": "180s", "workers": 8, "timeout": 600},
            {"run": "^TestCorrupt$", "checks": 1200000, "shards": 12},
            {"run": "^TestRoundTrip$", "checks": 2400, "shards": 12},
            {"run": "^TestRoundTripMany$", "shards": 2},
            {"run": "^TestWireRoundTrip$", "checks": 8000, "shards": 4},
            {"run": "^TestDuplicateParty$", "shards": 1},
            {"run": "^TestWrongSizeModulus$", "shards": 1},
        ],
    },
}

PROPS["C17"] = {
    "pkg": "c17", "level": "exploration",
    "technique": "model-based property testing (rapid) of the handler life cycle: generated call sequences (valid deliveries, duplicates, foreign and undecodable messages, "
                 "peer abort notices, Stop, Result, nil arguments) on MultiHandler and TwoPartyHandler with observational invariants after every step; and generated concurrent "
                 "programs (2-6 goroutines over one handler plus a drainer) executed under the Go race detector",
    "level_text": "Peers are replaced by the traffic they sent in an in-order run with the same randomness, so the handler under test really advances. After every call: no panic, "
                  "channel closed iff Result() has left 'not finished', value xor error, Result fixed after the end, Stop ends a running session with an error and is a no-op "
                  "afterwards, nothing is emitted after the end, and undisturbed sessions complete with the in-order result. Concurrent programs must be race-free "
                  "(GORACE halt_on_error), panic-free, must terminate, and satisfy the same final-state invariants.",
    "level_note": "The race detector only reports races that the executed interleavings exhibit; interleavings are those the Go scheduler produces (not harness-owned). Calls are "
                  "made while the outgoing channel is drained, as the statement allows.",
    "rule": "case = (handler kind/protocol, set of action kinds used, whether the session ended) for sequences; (protocol, goroutines, accepting goroutines, other call kinds) for "
            "concurrent programs; non-trivial iff the sequence contains Stop / abort notice / undecodable message, or the program has >= 2 accepting goroutines plus "
            "CanAccept/Result/Stop, or a Stop; distinct = distinct class keys",
    "assumptions": [],
    "tiers": {
        "quick": [
            {"run": "^TestSequential$", "checks": 4000, "shards": 6},
            {"run": "^TestConcurrent$", "checks": 600, "shards": 10, "race": True},
        ],
        "thorough": [
            {"run": "^TestPoolRace$", "shards": 2, "race": True, "timeout": 3000},
            {"run": "^TestSequential$", "checks": 160000, "shards": 6},
            {"run": "^TestConcurrent$", "checks": 20000, "shards": 10, "race": True, "timeout": 7000},
        ],
    },
}

PROPS["C04"] = {
    "pkg": "c04", "level": "fault_enumeration",
    "technique": "fault injection through the real handlers on the deterministic simulator, driven by rapid: (1) wire-level value alterations, value copies and whole-message "
                 "substitutions of every field of every message kind of every protocol by one cheater, (2) state-level deviations of a CMP presigner applied through a round "
                 "proxy (wrong gamma, k, x, delta share, chi share, sigma share off by one or exactly negated) in the offline, full and online variants, (3) one Paillier ciphertext of one direct message replaced by a "
                 "well-formed ciphertext of the plaintext plus one (keygen/refresh share, MtA D/F) or of the negated plaintext (keygen/refresh share); oracles: O1 no honest party is ever named by a "
                 "self-detected error, O2 catalogued verified-on-receipt fields are attributed to exactly the sender, O3 every honest signer singles out the deviating presigner",
    "level_text": "The cheater is run by the library's own handler (authentic headers, queues and echo-broadcast hashes); its outgoing messages are altered at one CBOR leaf "
                  "(another valid point/scalar/number, or the same field of another message) or its round state is edited around Finalize. Relayed abort notices are excluded "
                  "exactly as the statement says (the delivery that ended the session was a round-0 notice and its origin is the only culprit).",
    "level_note": "The O2 catalogue (catalogue/o2.json) lists the fields whose alteration every receiving honest party attributes to the sender on the pinned tree; it was "
                  "generated by running every field once and is a regression oracle for 'a message that fails verification is attributed to its sender'. Schedules are "
                  "sampled; CMP volumes are small.",
    "rule": "case = (protocol, n, round, message kind, generic field path, leaf kind, alteration kind, outcome summary) or (variant, deviation, signers, cheater position, abort "
            "notices dropped?, outcome summary); non-trivial iff the alteration was actually applied to a message that was sent; distinct = distinct class keys",
    "assumptions": ["authenticated channels: the cheater only sends under its own identity"],
    "tiers": {
        "quick": [
            {"run": "^TestWireCheap$", "checks": 4000, "shards": 4},
            {"run": "^TestWireCMP$", "checks": 48, "shards": 12, "timeout": 2400},
            {"run": "^TestDeviations$", "checks": 16, "shards": 8, "timeout": 2400},
            {"run": "^TestCtDeviations$", "shards": 10, "timeout": 2400},
            {"run": "^TestSigmaShare$", "shards": 16, "timeout": 2400},
            {"run": "^TestEquivocationCheap$", "checks": 600, "shards": 2},
            {"run": "^TestEquivocationCMP$", "checks": 12, "shards": 12, "timeout": 2400},
        ],
        "thorough": [
            {"run": "^TestWalkCatalogue$", "shards": 16, "timeout": 9000},
            {"run": "^TestWireCheap$", "checks": 120000, "shards": 6},
            {"run": "^TestWireCMP$", "checks": 640, "shards": 16, "timeout": 9000},
            {"run": "^TestDeviations$", "checks": 400, "shards": 16, "timeout": 9000},
            {"run": "^TestCtDeviations$", "shards": 16, "timeout": 9000},
            {"run": "^TestSigmaShare$", "shards": 16, "timeout": 9000},
            {"run": "^TestEquivocationCheap$", "checks": 30000, "shards": 4},
            {"run": "^TestEquivocationCMP$", "checks": 160, "shards": 16, "timeout": 9000},
        ],
    },
}

PROPS["C03"] = {
    "pkg": "c03", "level": "fault_enumeration",
    "technique": "fault injection through the real handlers on the deterministic simulator, driven by rapid and (thorough) a systematic walk over every field: one participant's "
                 "outgoing messages are altered at one CBOR leaf (another valid value, the same field of another recipient's / sender's message) or replaced by the message "
                 "meant for another recipient or round, or the presigner deviates at state level, or one Paillier ciphertext of one direct message is replaced by a well-formed "
                 "ciphertext of the plaintext plus one (keygen share, MtA D/F) or of the negated plaintext q - x (keygen share), or the last-round signature share is the exact negation; oracle = no honest party finishes with a result that an independent verifier "
                 "rejects or that is inconsistent with the other honest finishers",
    "level_text": "All protocols (cmp keygen/refresh/sign/presign offline, full, online; frost keygen/refresh/sign in both variants; doerner keygen/refresh/sign), n in 2..4 "
                  "(CMP 2..3), every cheater position, abort notices delivered or lost, generated schedules. Honest finishers' signatures are verified with the reference "
                  "ECDSA/Schnorr/BIP-340 verifiers under the dealer-known key; key material of finishers must agree on group key and public table, match own shares, and a "
                  "refresh must keep the key.",
    "level_note": "Wire-level alterations of a broadcast are the same for all recipients; per-recipient alteration of a broadcast is exercised with the twin construction "
                  "shared with C06 (two individually valid, differently randomised versions of the cheater, each facing a part of the honest parties). The cheater is run by "
                  "the real handler, so altered broadcasts also trip the echo-broadcast check; both detection paths are legitimate outcomes for this property.",
    "rule": "case = (protocol, n, round, message kind, generic field path, leaf kind, alteration kind, outcome summary of the honest parties); non-trivial iff the alteration was "
            "applied to a message that was really sent; distinct = distinct class keys",
    "assumptions": ["authenticated channels", "reference verifiers correct"],
    "tiers": {
        "quick": [
            {"run": "^TestCheap$", "checks": 4000, "shards": 4},
            {"run": "^TestCMP$", "checks": 48, "shards": 12, "timeout": 2400},
            {"run": "^TestCtDeviations$", "shards": 16, "timeout": 2400},
            {"run": "^TestEquivocationCheap$", "checks": 600, "shards": 2},
            {"run": "^TestEquivocationCMP$", "checks": 12, "shards": 12, "timeout": 2400},
        ],
        "thorough": [
            {"run": "^TestEquivocationCheap$", "checks": 30000, "shards": 4},
            {"run": "^TestEquivocationCMP$", "checks": 160, "shards": 16, "timeout": 9000},
            {"run": "^TestWalk$", "shards": 16, "timeout": 9000},
            {"run": "^TestCtDeviations$", "shards": 16, "timeout": 9000},
            {"run": "^TestCheap$", "checks": 120000, "shards": 6},
            {"run": "^TestCMP$", "checks": 640, "shards": 16, "timeout": 9000},
        ],
    },
}

PROPS["C05"] = {
    "pkg": "c05", "level": "fault_enumeration",
    "technique": "structured fault injection with rapid on the deterministic simulator: a real message in flight to the victim (any protocol, any round, incl. the presign abort "
                 "rounds reached through a deviating presigner) is replaced by a malformed version - one CBOR node altered by one of 33 shape-level malformations, one of 21 "
                 "header malformations, or raw bytes - and handed to CanAccept and Accept; oracle = both calls return (no panic, bounded time, memory capped by RLIMIT_AS), "
                 "the handler is afterwards running or cleanly ended, and the session continues without crash; plus native coverage-guided fuzz targets for the stored-material "
                 "and wire decoders in the thorough tier",
    "level_text": "Malformations: null, absent, empty/zero/truncated/extended/1 MiB byte strings, wrong CBOR types, empty and 100k-element arrays, out-of-range integers, "
                  "duplicate and unknown keys, identity points, corrupted nested encodings and count prefixes (0, +1, 0xFFFFFFFF); headers: recipient/sender/round/broadcast flag/"
                  "SSID/data/echo-hash variants and nil messages. Process death (out-of-memory, fatal error) is attributed to the journaled case and replayed.",
    "level_note": "Each shard runs under RLIMIT_AS = 8 GiB; a step may take at most 150 s (a CMP step takes <= 3 s). Forged senders are allowed here (the oracle never looks at "
                  "who is blamed).",
    "rule": "case = (protocol, deviation used to reach abort rounds, template message kind r<round>/bc, generic path, malformation kind); non-trivial iff the malformation was "
            "applicable to the chosen message; distinct = distinct class keys",
    "mem_gib": 8,
    "assumptions": ["RLIMIT_AS is enforced by the kernel"],
    "tiers": {
        "quick": [
            {"run": "^TestCheap$", "checks": 6000, "shards": 6},
            {"run": "^TestDoerner$", "checks": 1200, "shards": 4},
            {"run": "^TestCMP$", "checks": 60, "shards": 12, "timeout": 2400},
            {"run": "^TestSweepAbort$", "shards": 16, "timeout": 2400},
            {"run": "^TestSweepPrefix$", "shards": 4, "timeout": 2400},
            {"run": "^TestSweepHeader$", "shards": 16, "timeout": 2400},
        ],
        "thorough": [
            {"fuzz": "FuzzAccept", "fuzztime": "240s", "workers": 8, "timeout": 800},
            {"run": "^TestSweep$", "shards": 16, "timeout": 9000},
            {"run": "^TestSweepPrefix$", "shards": 4, "timeout": 9000},
            {"run": "^TestSweepHeader$", "shards": 16, "timeout": 9000},
            {"run": "^TestCheap$", "checks": 60000, "shards": 6},
            {"run": "^TestDoerner$", "checks": 12000, "shards": 4},
            {"run": "^TestCMP$", "checks": 320, "shards": 16, "timeout": 9000},
        ],
    },
}

PROPS["C06"] = {
    "pkg": "c06", "level": "fault_enumeration",
    "technique": "fault injection with rapid on the deterministic simulator: the equivocator is realised as two twins of the same party, both run by the real handler, that "
                 "share their randomness tape up to the byte offset at which the chosen broadcast round is produced and use different tapes afterwards; each twin's traffic "
                 "reaches only its audience (a generated partition of the honest parties), both twins receive all honest traffic; oracle = not both audiences contain a party "
                 "that completes, and completed parties hold byte-identical non-final broadcast views",
    "level_text": "Every twin is an individually valid participant (its messages come from the library itself), so the only thing that can stop the session is the echo-broadcast "
                  "check. Protocols: toy protocols with all round patterns, FROST keygen/refresh/sign (both variants), CMP keygen, sign and presign; 2-4 honest parties, every "
                  "equivocator position, every partition, generated schedules.",
    "level_note": "The fork offset is measured in a recording run (round proxy hook); a run in which the twins already differ before the requested round is reported as "
                  "inconclusive, never as a violation. Only rounds followed by a further round are forked (the statement's scope).",
    "rule": "case = (protocol/pattern, honest parties, equivocator position, fork round, whether the twins' payloads differ, finishers per audience); non-trivial iff the twins' "
            "round-r broadcasts really differ; distinct = distinct class keys",
    "assumptions": ["library randomness flows through crypto/rand.Reader"],
    "tiers": {
        "quick": [
            {"run": "^TestCheap$", "checks": 4000, "shards": 8},
            {"run": "^TestCMP$", "checks": 8, "shards": 8, "timeout": 2400},
        ],
        "thorough": [
            {"run": "^TestCheap$", "checks": 160000, "shards": 8},
            {"run": "^TestCMP$", "checks": 240, "shards": 16, "timeout": 9000},
        ],
    },
}

PROPS["C09"] = {
    "pkg": "c09", "level": "exploration",
    "technique": "metamorphic property testing (rapid): (a) pairs of start-parameter tuples differing in exactly one component (session id incl. nil vs empty, protocol, "
                 "participant set incl. shared-prefix / equal-concatenation / non-ASCII families, threshold, and for CMP key material, presignature, message) must give "
                 "different session tags, permutations of the same identifiers the same tag; (b) every message of a recorded session A is offered to every party of a session "
                 "B that differs in one parameter, before every step: CanAccept must be false, forced delivery must emit nothing and B's results must equal its baseline; "
                 "(c) a cheater re-sends an honest party's message of the same round under its own name (fault injection): no wrong result, no honest party blamed",
    "level_text": "Tags are read from the first round of the library's own start functions for all 15 protocol classes; the replay part runs the real handlers of B with fixed "
                  "per-party randomness so that 'changes nothing' is byte-exact equality of results.",
    "level_note": "For FROST and Doerner the statement does not require the tag to depend on key material or message, so those variations are only generated for CMP. Curves: "
                  "only secp256k1 exists.",
    "rule": "case = (varied component, protocol pair, identifier family) for tags, (varied component, A protocol, B protocol) for replay, (protocol, n, round, kind, outcome) "
            "for impersonation; non-trivial iff some component was varied / the substitution was applied; distinct = distinct class keys; counters.foreign_messages_offered "
            "counts CanAccept probes",
    "assumptions": ["authenticated channels for part (c)"],
    "tiers": {
        "quick": [
            {"run": "^TestCommitContext$", "checks": 3000, "shards": 1},
            {"run": "^TestTags$", "checks": 2400, "shards": 12},
            {"run": "^TestTagsWide$", "shards": 3},
            {"run": "^TestReplayCheap$", "checks": 600, "shards": 4},
            {"run": "^TestReplayCMP$", "checks": 4, "shards": 4, "timeout": 2400},
            {"run": "^TestImpersonate$", "checks": 600, "shards": 2},
            {"run": "^TestImpersonateCMP$", "checks": 6, "shards": 6, "timeout": 2400},
        ],
        "thorough": [
            {"run": "^TestCommitContext$", "checks": 200000, "shards": 2},
            {"run": "^TestTags$", "checks": 6000, "shards": 12},
            {"run": "^TestTagsWide$", "shards": 3},
            {"run": "^TestReplayCheap$", "checks": 30000, "shards": 6},
            {"run": "^TestReplayCMP$", "checks": 160, "shards": 16, "timeout": 9000},
            {"run": "^TestImpersonate$", "checks": 30000, "shards": 4},
            {"run": "^TestImpersonateCMP$", "checks": 240, "shards": 16, "timeout": 9000},
        ],
    },
}

# Technique texts that were extended after the seeded-change evaluation (DESIGN section 11) are kept in
# technique_overrides.json (full replacement texts) so that the long literals above stay as they were reviewed.
import json as _json, os as _os
_ov = _os.path.join(_os.path.dirname(_os.path.abspath(__file__)), "technique_overrides.json")
if _os.path.exists(_ov):
    for _k, _v in _json.load(open(_ov)).items():
        PROPS[_k]["technique"] = _v
