#!/bin/bash
# usage: parshards.sh <binary> <test regex> <outdir> [known file]  -- runs 16 shards of a deterministic enumeration test in parallel
set +m
bin=$1; run=$2; out=$3; known=${4:-/verif/KNOWN_FINDINGS.jsonl}
rm -rf "$out"; mkdir -p "$out"
for s in $(seq 0 15); do
  ( ulimit -v 8000000; VERIF_PROP=${VERIF_PROP:-C05} VERIF_KNOWN=$known VERIF_OUT=$out VERIF_ROOT=/verif VERIF_SHARD=$s VERIF_NSHARDS=16 "$bin" -test.run "$run" -test.timeout 6000s > "$out/log.$s" 2>&1 ) &
done
wait
python3 - "$out" <<'PY'
import json,glob,collections,sys
tot=0; cnt=collections.Counter(); notes={}
for f in glob.glob(sys.argv[1]+'/evidence-*.json'):
    d=json.load(open(f)); tot+=d['evaluations']
    for k,v in d['counters'].items(): cnt[k]+=v
    notes.update(d['notes'])
print('evaluations',tot)
for k,v in sorted(cnt.items()): print('  ',k,v)
for k,v in notes.items(): print('---',k,'\n',v[:900])
PY
grep -L "^PASS\|^ok" "$out"/log.* | head
