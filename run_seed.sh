#!/bin/bash
# usage: run_seed.sh <ID> <patch.diff> [tier]   -- applies a seeded change to /repo, runs the check, reverts
id=$1; patch=$2; tier=${3:-quick}
cd /repo && git status --short | grep -q . && { echo "/repo not clean"; exit 2; }
git apply "$patch" || exit 2
cd /verif && ./check $id $tier 2>&1 | tail -${TAILN:-6} | cut -c1-500
rc=${PIPESTATUS[0]}
git -C /repo checkout -q -- . && git -C /repo clean -fdq
git -C /repo status --short | head -2
