#!/bin/bash
# usage: confirm_seed.sh <ID> <seeddir> <demo-package-dir-relative-to-repo> [test regex]
# (DEMOFLAGS=-race for demonstrations that need the race detector)
# Confirms a seeded change in the scratch worktree /tmp/wt-<ID>: existing suite passes with the patch,
# the demonstration fails with it and passes without it. Leaves the worktree clean.
export GOFLAGS=-mod=mod GOPROXY=off GOSUMDB=off GOTOOLCHAIN=local
id=$1; seed=$2; pkg=$3
# the demonstration tests are selected by name, taken from the demo file itself
re="^($(grep -h "^func Test" "$seed"/demo*_test.go | sed -E "s/^func (Test[A-Za-z0-9_]*).*/\1/" | paste -sd"|"))\$"
wt=/tmp/wt-$id
cd $wt || exit 2
git checkout -q -- . && git clean -fdq
git apply --check "$seed/patch.diff" || { echo "PATCH DOES NOT APPLY"; exit 2; }
git apply "$seed/patch.diff"
cp "$seed"/demo*_test.go "$pkg"/ 2>/dev/null
go build ./... || { echo "BUILD FAILS WITH PATCH"; exit 2; }
echo "== demo WITH patch (must fail)"
go test $DEMOFLAGS -vet=off -count=1 -timeout 20m -run "$re" "./$pkg/" 2>&1 | tail -4
rm -f "$pkg"/demo*_test.go
echo "== existing suite WITH patch (must pass)"
go test -vet=off -count=1 -timeout 25m ./... > /tmp/confirm-suite-$id.log 2>&1
echo "   suite exit=$? ok-packages=$(grep -c "^ok" /tmp/confirm-suite-$id.log) failing=$(grep -c "^FAIL\|^---  *FAIL\|^panic" /tmp/confirm-suite-$id.log)"
grep "^FAIL\|^--- FAIL" /tmp/confirm-suite-$id.log | head -5; rm -f /tmp/confirm-suite-$id.log
git checkout -q -- . && git clean -fdq
cp "$seed"/demo*_test.go "$pkg"/
echo "== demo WITHOUT patch (must pass)"
go test $DEMOFLAGS -vet=off -count=1 -timeout 20m -run "$re" "./$pkg/" 2>&1 | tail -3
rm -f "$pkg"/demo*_test.go
git checkout -q -- . && git clean -fdq
git status --short | head -3
