// Package sim is a deterministic in-process network over protocol.Handler. Every scheduling decision
// (which pending delivery next, duplicate it or not) is supplied by the caller, so a whole run is a
// value that can be generated, shrunk and replayed.
package sim

import (
	"errors"
	"fmt"
	"runtime"
	"runtime/debug"
	"sort"
	"strings"
	"time"

	"github.com/taurusgroup/multi-party-sig/pkg/party"
	"github.com/taurusgroup/multi-party-sig/pkg/protocol"
	"github.com/taurusgroup/multi-party-sig/verifharness/tape"
)

type Msg = protocol.Message

// Clone deep-copies a message (handlers keep pointers to what they are given).
func Clone(m *Msg) *Msg {
	if m == nil {
		return nil
	}
	c := *m
	c.SSID = cloneBytes(m.SSID)
	c.Data = cloneBytes(m.Data)
	c.BroadcastVerification = cloneBytes(m.BroadcastVerification)
	return &c
}

func cloneBytes(b []byte) []byte {
	if b == nil {
		return nil
	}
	return append([]byte{}, b...)
}

type LogEntry struct {
	M        *Msg
	Accepted bool // CanAccept returned true and Accept was called
	Forced   bool // Accept called although CanAccept was false
	// ClosedBefore / ClosedAfter: whether the party's outgoing channel was closed before / after this delivery
	ClosedBefore, ClosedAfter bool
}

type Party struct {
	Name     string
	ID       party.ID
	H        protocol.Handler
	ch       <-chan *Msg
	Closed   bool
	Sent     []*Msg
	Log      []LogEntry
	Audience map[string]bool // nil: everyone. Otherwise names of the parties that get this party's messages.
	Mute     bool            // messages of this party are recorded but never delivered
}

type Delivery struct {
	M    *Msg
	From string
	To   string
	Seq  int
	Dup  bool
}

type Net struct {
	Parties []*Party
	byName  map[string]*Party
	Pending []*Delivery
	Tape    *tape.Mux
	seq     int
	initial []initialBatch

	// OnEmit may rewrite what a party emits (tampering). Returning nil keeps the message.
	OnEmit func(from *Party, m *Msg) []*Msg
	// Route may rewrite or drop (nil) a message per recipient.
	Route func(from *Party, m *Msg, to *Party) *Msg
	// BeforeDeliver is called before each delivery is handed to its recipient.
	BeforeDeliver func(d *Delivery)
	// DropAbortNotices: round-0 messages are recorded but not delivered.
	DropAbortNotices bool
	// ForceAccept: call Accept even when CanAccept is false (the statement of several properties
	// says "delivering it anyway changes nothing").
	ForceAccept bool
	// Quiet parties whose outgoing traffic is discarded.
	StepTimeout time.Duration
	// ConstructTimeout bounds handler construction (which cannot be drained concurrently).
	ConstructTimeout time.Duration
	TimedOut         bool
	Steps            int
	Delivered        int
	Dropped          int
}

func New(mux *tape.Mux) *Net {
	return &Net{Tape: mux, byName: map[string]*Party{}, StepTimeout: 180 * time.Second, ConstructTimeout: 90 * time.Second}
}

func (n *Net) Party(name string) *Party { return n.byName[name] }

// HangError reports a handler call that does not return. Definite means the blocked goroutine was
// found parked in a channel send that nobody can ever receive from (not a matter of timing).
type HangError struct {
	Where    string
	Definite bool
	Stack    string
}

func (h *HangError) Error() string {
	return fmt.Sprintf("hang in %s (definite=%v)", h.Where, h.Definite)
}

// PanicError carries a panic raised inside a handler call.
type PanicError struct {
	Where string
	Value interface{}
	Stack string
}

func (p *PanicError) Error() string { return fmt.Sprintf("panic in %s: %v", p.Where, p.Value) }

// Add constructs a handler under the party's own randomness and collects its first messages.
func (n *Net) Add(name string, id party.ID, construct func() (protocol.Handler, error)) (*Party, error) {
	if n.Tape != nil {
		n.Tape.Use(name)
	}
	type res struct {
		h   protocol.Handler
		err error
	}
	done := make(chan res, 1)
	go func() {
		var r res
		if perr := guard("constructor", func() { r.h, r.err = construct() }); perr != nil {
			r.err = perr
		}
		done <- r
	}()
	var h protocol.Handler
	var err error
	timer := time.NewTimer(n.ConstructTimeout)
	defer timer.Stop()
	select {
	case r := <-done:
		h, err = r.h, r.err
	case <-timer.C:
		// nobody can drain a handler that does not exist yet: a constructor parked in a channel send is a definite hang
		buf := make([]byte, 1<<20)
		buf = buf[:runtime.Stack(buf, true)]
		for _, g := range strings.Split(string(buf), "\n\n") {
			if strings.Contains(g, "[chan send") && (strings.Contains(g, "NewMultiHandler") || strings.Contains(g, "NewTwoPartyHandler")) {
				return nil, &HangError{Where: "constructor", Definite: true, Stack: g}
			}
		}
		n.TimedOut = true
		return nil, &HangError{Where: "constructor", Definite: false}
	}
	if err != nil {
		return nil, err
	}
	if h == nil {
		return nil, errors.New("nil handler")
	}
	p := &Party{Name: name, ID: id, H: h, ch: h.Listen()}
	n.Parties = append(n.Parties, p)
	n.byName[name] = p
	// first messages are posted by Start, once every party exists
	n.initial = append(n.initial, initialBatch{p, n.drainNow(p)})
	return p, nil
}

type initialBatch struct {
	p     *Party
	batch []*Msg
}

// Start posts the first messages of all parties added so far (idempotent per batch).
func (n *Net) Start() {
	init := n.initial
	n.initial = nil
	for _, b := range init {
		n.collect(b.p, b.batch)
	}
}

func (n *Net) drainNow(p *Party) []*Msg {
	var out []*Msg
	if p.Closed {
		return nil
	}
	for {
		select {
		case m, ok := <-p.ch:
			if !ok {
				p.Closed = true
				return out
			}
			out = append(out, m)
		default:
			return out
		}
	}
}

func msgLess(a, b *Msg) bool {
	if a.RoundNumber != b.RoundNumber {
		// abort notices (round 0) last
		if a.RoundNumber == 0 || b.RoundNumber == 0 {
			return b.RoundNumber == 0
		}
		return a.RoundNumber < b.RoundNumber
	}
	if a.Broadcast != b.Broadcast {
		return a.Broadcast
	}
	return a.To < b.To
}

// collect canonicalises one batch of outgoing messages and turns it into pending deliveries.
func (n *Net) collect(p *Party, batch []*Msg) {
	sort.SliceStable(batch, func(i, j int) bool { return msgLess(batch[i], batch[j]) })
	for _, m := range batch {
		p.Sent = append(p.Sent, Clone(m))
		outs := []*Msg{m}
		if n.OnEmit != nil {
			if r := n.OnEmit(p, Clone(m)); r != nil {
				outs = r
			}
		}
		for _, o := range outs {
			n.Post(p, o)
		}
	}
}

// Post expands a message emitted by p into one delivery per recipient.
func (n *Net) Post(p *Party, m *Msg) {
	if p.Mute {
		return
	}
	if m.RoundNumber == 0 && n.DropAbortNotices {
		return
	}
	for _, q := range n.Parties {
		if q == p || q.ID == p.ID {
			continue
		}
		if !m.IsFor(q.ID) {
			continue
		}
		if p.Audience != nil && !p.Audience[q.Name] {
			continue
		}
		c := Clone(m)
		if n.Route != nil {
			c = n.Route(p, c, q)
			if c == nil {
				continue
			}
		}
		n.Inject(p.Name, c, q.Name, false)
	}
}

// Inject queues an arbitrary delivery.
func (n *Net) Inject(from string, m *Msg, to string, dup bool) {
	n.seq++
	n.Pending = append(n.Pending, &Delivery{M: m, From: from, To: to, Seq: n.seq, Dup: dup})
}

// Step delivers pending delivery i (removing it); with dup the delivery is also re-queued once.
func (n *Net) Step(i int, dup bool) error {
	d := n.Pending[i]
	n.Pending = append(n.Pending[:i:i], n.Pending[i+1:]...)
	if dup && !d.Dup {
		n.Inject(d.From, Clone(d.M), d.To, true)
	}
	return n.DeliverTo(n.byName[d.To], d)
}

// DeliverTo follows the README loop: CanAccept, then Accept; outgoing messages are drained concurrently.
func (n *Net) DeliverTo(p *Party, d *Delivery) error {
	n.Steps++
	if n.BeforeDeliver != nil {
		n.BeforeDeliver(d)
	}
	if n.Tape != nil {
		n.Tape.Use(p.Name)
	}
	m := d.M
	var can bool
	if err := guard("CanAccept", func() { can = p.H.CanAccept(m) }); err != nil {
		return err
	}
	p.Log = append(p.Log, LogEntry{M: m, Accepted: can, Forced: !can && n.ForceAccept, ClosedBefore: p.Closed, ClosedAfter: p.Closed})
	if !can && !n.ForceAccept {
		n.Dropped++
		return nil
	}
	n.Delivered++
	out, err := n.Call(p, "Accept", func() { p.H.Accept(m) })
	p.Log[len(p.Log)-1].ClosedAfter = p.Closed
	n.collect(p, out)
	return err
}

// Call runs f (a handler call that may emit messages) while draining the party's channel.
func (n *Net) Call(p *Party, where string, f func()) ([]*Msg, error) {
	done := make(chan error, 1)
	go func() { done <- guard(where, f) }()
	var out []*Msg
	ch := p.ch
	if p.Closed {
		ch = nil
	}
	timer := time.NewTimer(n.StepTimeout)
	defer timer.Stop()
	for {
		select {
		case m, ok := <-ch:
			if !ok {
				p.Closed = true
				ch = nil
				continue
			}
			out = append(out, m)
		case err := <-done:
			out = append(out, n.drainNow(p)...)
			return out, err
		case <-timer.C:
			n.TimedOut = true
			return out, fmt.Errorf("step timeout after %v in %s of party %s", n.StepTimeout, where, p.Name)
		}
	}
}

func guard(where string, f func()) (err error) {
	defer func() {
		if x := recover(); x != nil {
			err = &PanicError{Where: where, Value: x, Stack: string(debug.Stack())}
		}
	}()
	f()
	return nil
}

// Chooser decides the next delivery among n.Pending; ok=false stops the run.
type Chooser func(n *Net) (idx int, dup bool)

// FIFO always delivers the oldest pending message.
func FIFO(*Net) (int, bool) { return 0, false }

// FromList builds a chooser from pre-drawn integers: low 12 bits pick, bit 12 duplicates.
// When the list is exhausted the run continues FIFO.
func FromList(list []int) Chooser {
	i := 0
	return func(n *Net) (int, bool) {
		if i >= len(list) {
			return 0, false
		}
		v := list[i]
		i++
		return (v & 0xFFF) % len(n.Pending), (v>>12)&1 == 1
	}
}

// Run delivers until nothing is pending (quiescence) or maxSteps is hit.
func (n *Net) Run(choose Chooser, maxSteps int) error {
	n.Start()
	for len(n.Pending) > 0 {
		if n.Steps >= maxSteps {
			return fmt.Errorf("sim: more than %d steps", maxSteps)
		}
		i, dup := choose(n)
		if err := n.Step(i, dup); err != nil {
			return err
		}
	}
	return nil
}

// Outcome of one party at quiescence.
type Outcome struct {
	Value    interface{}
	Err      error
	Finished bool // Result() returned a value
	Aborted  bool // Result() returned an error other than "not finished"
	Culprits []party.ID
	Closed   bool
}

func (p *Party) Outcome() Outcome {
	v, err := p.H.Result()
	o := Outcome{Value: v, Err: err, Closed: p.Closed}
	if err == nil && v != nil {
		o.Finished = true
		return o
	}
	if err != nil && err.Error() != "protocol: not finished" {
		o.Aborted = true
		var pe protocol.Error
		if errors.As(err, &pe) {
			o.Culprits = pe.Culprits
		}
	}
	return o
}
