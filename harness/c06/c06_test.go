package c06

import (
	"bytes"
	"fmt"
	"strings"
	"testing"

	"github.com/taurusgroup/multi-party-sig/verifharness/equiv"
	"github.com/taurusgroup/multi-party-sig/verifharness/ev"
	"github.com/taurusgroup/multi-party-sig/verifharness/pbt"
	"github.com/taurusgroup/multi-party-sig/verifharness/proto"
	"pgregory.net/rapid"
)

func TestMain(m *testing.M)   { pbt.Main(m) }
func TestReplay(t *testing.T) { pbt.Replay(t) }
func TestCorpus(t *testing.T) { pbt.Corpus(t) }

type Case = equiv.Case

var lastClass string

func run(c Case) *pbt.Fail {
	lastClass = "skipped"
	r, f := equiv.Run(c)
	if f != nil {
		return f
	}
	if r.Skipped {
		return nil
	}
	n, finA, finB, groupA, groupB, differ, cheater := r.Net, r.FinA, r.FinB, r.GroupA, r.GroupB, r.Differ, r.Cheater
	lastClass = fmt.Sprintf("r=%d|differ=%v|resend=%v|A=%d/%d|B=%d/%d", c.Round, differ, c.Resend, len(finA), len(groupA), len(finB), len(groupB))
	if !differ {
		return nil
	}
	// with Resend a member of audience A may have been handed version B first and then legitimately shares B's view: there
	// the decision is taken on the versions the parties were handed FIRST (below), not on audience membership
	if len(finA) > 0 && len(finB) > 0 && !c.Resend {
		return pbt.Failf("split:"+c.Proto, fmt.Sprintf("%q equivocated in broadcast round %d; honest parties %v (audience of twin A) and %v (audience of twin B) ALL completed although they received different payloads", cheater, c.Round, finA, finB))
	}
	// completed honest parties hold identical views of every non-final broadcast round
	fin := append(finA, finB...)
	finalRound := 0
	for _, p := range n.Parties {
		for _, m := range p.Sent {
			if int(m.RoundNumber) > finalRound {
				finalRound = int(m.RoundNumber)
			}
		}
	}
	// a party's view of a broadcast is the version it was handed first (a later version from the same sender for the same
	// round is a duplicate the handler must ignore)
	view := map[string][]byte{}
	for _, name := range fin {
		own := map[string]bool{}
		for _, e := range n.Party(name).Log {
			m := e.M
			if !e.Accepted || !m.Broadcast || int(m.RoundNumber) >= finalRound || m.RoundNumber == 0 {
				continue
			}
			k := fmt.Sprintf("%d/%s", m.RoundNumber, m.From)
			if own[k] {
				continue
			}
			own[k] = true
			if v, ok := view[k]; ok && !bytes.Equal(v, m.Data) {
				return pbt.Failf("views-differ:"+c.Proto, fmt.Sprintf("completed honest parties acted on different round-%d broadcasts of %q (resend=%v)", m.RoundNumber, m.From, c.Resend))
			}
			view[k] = m.Data
		}
	}
	return nil
}

var prop = pbt.Define(pbt.Prop[Case]{Kind: "equivocation", Run: run, Journal: true, Class: func(c Case) (string, bool) {
	return fmt.Sprintf("%s%s|honest=%d|cheater=%d|%s", c.Proto, c.Pattern, c.Honest, c.Cheater, lastClass), strings.Contains(lastClass, "differ=true")
}})

func TestCheap(t *testing.T) {
	rapid.Check(t, func(rt *rapid.T) {
		prop.One(rt, equiv.Gen(rt, []string{proto.Toy, proto.Toy, proto.FrostKeygen, proto.FrostKeygenTap, proto.FrostSign, proto.FrostSignTap, proto.FrostRefresh}, 4))
	})
}

func TestCMP(t *testing.T) {
	rapid.Check(t, func(rt *rapid.T) {
		c := equiv.Gen(rt, []string{proto.CMPSign, proto.CMPPresign, proto.CMPKeygen, proto.CMPSign}, 2)
		if ev.Get().Thorough() && rapid.Bool().Draw(rt, "three") {
			c.Honest = 3
			c.Split = 1 + c.Split%6
		}
		prop.One(rt, c)
	})
}
