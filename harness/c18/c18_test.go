package c18

import (
	"fmt"
	"runtime"
	"strings"
	"sync/atomic"
	"testing"
	"time"

	"github.com/taurusgroup/multi-party-sig/pkg/pool"
	"github.com/taurusgroup/multi-party-sig/verifharness/ev"
	"github.com/taurusgroup/multi-party-sig/verifharness/pbt"
	"pgregory.net/rapid"
)

func TestMain(m *testing.M)   { pbt.Main(m) }
func TestReplay(t *testing.T) { pbt.Replay(t) }
func TestCorpus(t *testing.T) { pbt.Corpus(t) }

// Call is one pool call of a scheduled case.
type Call struct {
	Search bool
	Count  int
	// Succ: for Search, attempt k of the whole call succeeds iff Succ[k%len(Succ)] (all-true when empty)
	Succ []bool
	// Dry: the search space holds exactly Count successes: once Count attempts have succeeded every further attempt
	// fails ("Search queries the function f, until count successes are found")
	Dry bool
}

// overrun is a deterministic livelock signal (no clock involved): the predicate of a Dry search is still being queried
// AFTER Search has returned. By then the counter of outstanding results is zero for good, so a worker of the unchanged
// pool makes at most the one query it had already decided on (at most one per worker); overrunLimit is far above any
// worker count used. The querying worker is then parked for good so that the case can end. Dry searches are only used
// free-running: under the harness-owned schedule a worker that polls f while the workers holding the successes are parked
// before their decrement would spin by construction.
const overrunLimit = 2000

var overrun int32

func resetOverrun() { atomic.StoreInt32(&overrun, 0) }

func dryQuery(returned *int32, late *int64) interface{} {
	if atomic.LoadInt32(returned) == 1 && atomic.AddInt64(late, 1) > overrunLimit {
		atomic.StoreInt32(&overrun, 1)
		select {}
	}
	return nil
}

func overrunFail(callNo int, call Call) *pbt.Fail {
	return pbt.Failf("search-overrun", fmt.Sprintf("call %d (%+v): f was queried more than %d times after Search had returned its %d results: the workers do not stop searching", callNo, call, overrunLimit, call.Count))
}

// Case is a sequence of pool calls on one pool, executed under a harness-chosen schedule.
type Case struct {
	Workers int
	Calls   []Call
	Choices []int // which parked goroutine runs next (mod number of options); exhausted -> first option
}

type outcome struct {
	fail     *pbt.Fail
	trace    []string
	nchoices []int // number of options at each choice point (for exhaustive enumeration)
	sep      bool  // some worker's counter update and its notification were separated by a caller step
}

// runCall runs one pool call on its own goroutine and schedules it to completion or deadlock.
func runScheduled(c Case, maxAttempts int) outcome {
	var last outcome
	for a := 0; a < maxAttempts; a++ {
		last = runScheduledOnce(c)
		if last.fail != nil {
			return last
		}
	}
	return last
}

func runScheduledOnce(c Case) (out outcome) {
	resetOverrun()
	s := newScheduler()
	s.install()
	defer s.uninstall()
	p := pool.NewPool(c.Workers)
	ci := 0
	choose := func(n int) int {
		out.nchoices = append(out.nchoices, n)
		if ci < len(c.Choices) {
			v := c.Choices[ci] % n
			ci++
			return v
		}
		ci++
		return 0
	}
	cleanup := func() {
		s.setFree()
	}
	for callNo, call := range c.Calls {
		type result struct{ vals []interface{} }
		done := make(chan result, 1)
		var attempts, successes, late int64
		var returned int32
		started := make(chan int, 1)
		go func(call Call) {
			started <- curGID()
			var r []interface{}
			if call.Search {
				r = p.Search(call.Count, func() interface{} {
					k := int(atomic.AddInt64(&attempts, 1) - 1)
					if len(call.Succ) == 0 || call.Succ[k%len(call.Succ)] {
						if call.Dry && atomic.AddInt64(&successes, 1) > int64(call.Count) {
							return dryQuery(&returned, &late)
						}
						return k + 1
					}
					return nil
				})
			} else {
				r = p.Parallelize(call.Count, func(i int) interface{} { return i * i })
			}
			done <- result{r}
		}(call)
		s.caller = <-started
		delete(s.names, s.caller)
		for gid, n := range s.names {
			if n == "C" {
				delete(s.names, gid)
			}
		}
		var res *result
		lastWorkerDec := map[string]bool{}
		for res == nil {
			snap, ok := s.quiesce()
			if !ok {
				cleanup()
				if atomic.LoadInt32(&overrun) == 1 {
					out.fail = overrunFail(callNo, call)
					return
				}
				out.fail = pbt.Failf("inconclusive:no-quiescence", "managed goroutines did not become quiescent")
				return
			}
			select {
			case r := <-done:
				res = &r
				continue
			default:
			}
			opts := s.options(snap)
			if len(opts) == 0 {
				// nobody can move: the caller has not returned and every managed goroutine is blocked in the runtime
				var b strings.Builder
				for _, g := range s.managed(snap) {
					fmt.Fprintf(&b, "%s: %s\n", s.name(snap, g.id), g.state)
				}
				out.trace = s.trace
				out.fail = pbt.Failf("deadlock:call", fmt.Sprintf("call %d (%+v) never returns: all pool goroutines and the caller are blocked\n%s trace=%v", callNo, call, b.String(), s.trace))
				cleanup()
				return
			}
			g := opts[choose(len(opts))]
			name := s.name(snap, g.gid)
			// classification: a caller step between a worker's decrement and its notification
			if strings.HasPrefix(name, "W") {
				if strings.HasSuffix(g.label, "before-notify") {
					lastWorkerDec[name] = true
				} else {
					delete(lastWorkerDec, name)
				}
			} else if len(lastWorkerDec) > 0 {
				out.sep = true
			}
			s.releaseOne(snap, g)
		}
		// results
		if f := checkResults(call, res.vals, callNo); f != nil {
			out.trace = s.trace
			out.fail = f
			cleanup()
			return
		}
	}
	out.trace = append([]string{}, s.trace...)
	// let every worker run to its resting point, then take the census
	s.setFree()
	if f := census(s, p, c.Workers); f != nil {
		f.Detail += fmt.Sprintf(" trace=%v", out.trace)
		out.fail = f
		return
	}
	p.TearDown()
	return
}

func checkResults(call Call, vals []interface{}, callNo int) *pbt.Fail {
	if len(vals) != call.Count {
		return pbt.Failf("results:length", fmt.Sprintf("call %d returned %d results for count %d", callNo, len(vals), call.Count))
	}
	seen := map[int]bool{}
	for i, v := range vals {
		if call.Search {
			k, ok := v.(int)
			if v == nil || !ok {
				return pbt.Failf("results:search-nil-entry", fmt.Sprintf("call %d: Search result %d is %v", callNo, i, v))
			}
			if seen[k] {
				return pbt.Failf("results:search-duplicate", fmt.Sprintf("call %d: Search returned the product of attempt %d twice", callNo, k))
			}
			seen[k] = true
			if len(call.Succ) > 0 && !call.Succ[(k-1)%len(call.Succ)] {
				return pbt.Failf("results:search-invented", fmt.Sprintf("call %d: Search returned a value f never produced successfully", callNo))
			}
		} else if v != i*i {
			return pbt.Failf("results:parallelize", fmt.Sprintf("call %d: result[%d] = %v, want %d", callNo, i, v, i*i))
		}
	}
	return nil
}

// census proves that all workers are available again: W barrier tasks must be in flight at once.
func census(s *scheduler, p *pool.Pool, workers int) *pbt.Fail {
	arrived := make(chan int, workers)
	release := make(chan struct{})
	done := make(chan struct{})
	started := make(chan int, 1)
	go func() {
		started <- curGID()
		p.Parallelize(workers, func(i int) interface{} {
			arrived <- i
			<-release
			return i
		})
		close(done)
	}()
	s.caller = <-started
	got := 0
	deadline := time.Now().Add(20 * time.Second)
	for got < workers {
		select {
		case <-arrived:
			got++
			continue
		default:
		}
		if atomic.LoadInt32(&overrun) == 1 {
			close(release)
			return pbt.Failf("search-overrun", fmt.Sprintf("after the calls returned, f of a finished Search was still being queried (more than %d further queries): the workers did not stop searching", overrunLimit))
		}
		// fewer than W tasks in flight: is anything still able to move?
		snap := snapshot()
		allBlocked := true
		var b strings.Builder
		for _, g := range s.managed(snap) {
			fmt.Fprintf(&b, "g%d(worker=%v): %s; ", g.id, g.worker, g.state)
			if !blockedState(g.state) {
				allBlocked = false
			}
		}
		if allBlocked && len(arrived) == 0 {
			// confirm on a second snapshot (states are exact, but be conservative)
			runtime.Gosched()
			snap2 := snapshot()
			still := true
			for _, g := range s.managed(snap2) {
				if !blockedState(g.state) {
					still = false
				}
			}
			if still && len(arrived) == 0 {
				close(release)
				return pbt.Failf("lost-worker", fmt.Sprintf("after the calls only %d of %d workers can take a task; goroutines: %s", got, workers, b.String()))
			}
		}
		if time.Now().After(deadline) {
			close(release)
			return pbt.Failf("inconclusive:census", "census did not settle")
		}
		runtime.Gosched()
	}
	close(release)
	<-done
	return nil
}

func classify(c Case, o outcome) (string, bool) {
	kinds := ""
	total := 0
	for _, call := range c.Calls {
		if call.Search && call.Dry {
			kinds += "D"
		} else if call.Search {
			kinds += "S"
		} else {
			kinds += "P"
		}
		total += call.Count
	}
	shape := "plain"
	if o.sep {
		shape = "decrement/notify-separated-by-caller"
	}
	return fmt.Sprintf("W=%d|%s|count=%d|%s", c.Workers, kinds, total, shape), o.sep || len(c.Calls) > 1
}

var lastOutcome outcome

var schedProp = pbt.Define(pbt.Prop[Case]{Kind: "pool-schedule", Journal: true,
	Run: func(c Case) *pbt.Fail {
		// the runtime's tie-breaks are not owned by the harness: a replay counts as reproduced if any attempt fails
		attempts := 1
		if _, _, isReplay := ev.ReplayFile(); isReplay {
			attempts = 200
		}
		lastOutcome = runScheduled(c, attempts)
		return lastOutcome.fail
	},
	Class: func(c Case) (string, bool) { return classify(c, lastOutcome) },
})

func genCase(t *rapid.T) Case {
	c := Case{Workers: rapid.IntRange(1, 4).Draw(t, "workers")}
	n := rapid.IntRange(1, 3).Draw(t, "calls")
	for i := 0; i < n; i++ {
		call := Call{Search: rapid.Bool().Draw(t, "search"), Count: rapid.IntRange(0, 5).Draw(t, "count")}
		if call.Search {
			call.Succ = rapid.SliceOfN(rapid.Bool(), 0, 4).Draw(t, "succ")
			any := len(call.Succ) == 0
			for _, b := range call.Succ {
				any = any || b
			}
			if !any {
				call.Succ[0] = true // a search whose predicate never succeeds does not terminate by specification
			}
		}
		c.Calls = append(c.Calls, call)
	}
	c.Choices = rapid.SliceOfN(rapid.IntRange(0, 11), 0, 80).Draw(t, "choices")
	return c
}

func TestScheduled(t *testing.T) {
	rapid.Check(t, func(rt *rapid.T) { schedProp.One(rt, genCase(rt)) })
}

// ---- exhaustive enumeration of the choice tree for small configurations

func exhaustOne(t ev.Fataler, base Case, limit int) (runs int, complete bool) {
	rec := ev.Get()
	// iterative DFS over choice vectors: run, read the option counts, increment like an odometer
	choices := []int{}
	for {
		c := base
		c.Choices = append([]int{}, choices...)
		rec.Journal("pool-schedule", c)
		o := runScheduledOnce(c)
		runs++
		class, nt := classify(c, o)
		rec.Case("pool-schedule|exh|"+class, nt, nil)
		if o.fail != nil {
			if strings.HasPrefix(o.fail.Sig, "inconclusive") {
				rec.Count("inconclusive", 1)
				return runs, false
			}
			c.Choices = c.Choices[:min(len(c.Choices), len(o.nchoices))]
			if rec.Report(t, "pool-schedule", o.fail.Sig, o.fail.Detail, c) {
				return runs, false
			}
			// known finding: keep enumerating
		}
		// next vector: pad with zeros to the executed length, then increment from the back
		n := o.nchoices
		v := make([]int, len(n))
		copy(v, choices)
		for i := range v {
			if v[i] >= n[i] {
				v[i] = v[i] % n[i]
			}
		}
		i := len(v) - 1
		for i >= 0 {
			if v[i]+1 < n[i] {
				v[i]++
				v = v[:i+1]
				break
			}
			i--
		}
		if i < 0 {
			return runs, true
		}
		choices = v
		if runs >= limit {
			return runs, false
		}
	}
}

func TestExhaustiveSmall(t *testing.T) {
	rec := ev.Get()
	type cfg struct {
		c     Case
		limit int
	}
	var cfgs []cfg
	lim := 3500 // quick: configurations with more schedules than this are reported as sampled, not exhaustive
	if rec.Thorough() {
		lim = 100000
	}
	for _, w := range []int{1, 2} {
		for _, count := range []int{0, 1, 2} {
			cfgs = append(cfgs, cfg{Case{Workers: w, Calls: []Call{{Count: count}}}, lim})
			cfgs = append(cfgs, cfg{Case{Workers: w, Calls: []Call{{Search: true, Count: count}}}, lim})
		}
	}
	cfgs = append(cfgs, cfg{Case{Workers: 1, Calls: []Call{{Count: 1}, {Count: 1}}}, lim})
	cfgs = append(cfgs, cfg{Case{Workers: 1, Calls: []Call{{Search: true, Count: 1}, {Count: 1}}}, lim})
	if rec.Thorough() {
		cfgs = append(cfgs, cfg{Case{Workers: 2, Calls: []Call{{Count: 3}}}, 40000})
		cfgs = append(cfgs, cfg{Case{Workers: 2, Calls: []Call{{Search: true, Count: 3}}}, 40000})
		cfgs = append(cfgs, cfg{Case{Workers: 2, Calls: []Call{{Count: 1}, {Count: 1}}}, 40000})
		cfgs = append(cfgs, cfg{Case{Workers: 3, Calls: []Call{{Count: 2}}}, 40000})
		cfgs = append(cfgs, cfg{Case{Workers: 2, Calls: []Call{{Search: true, Count: 1, Succ: []bool{false, true}}}}, 40000})
	}
	for i, x := range cfgs {
		if !rec.Mine(i) {
			continue
		}
		runs, complete := exhaustOne(t, x.c, x.limit)
		space := fmt.Sprintf("pool-W%d-%+v", x.c.Workers, x.c.Calls)
		rec.Exhaustive(space, complete)
		rec.Count("exhaustive_schedules", int64(runs))
	}
}

// ---- (a) results under free-running schedules and (c) stress with census

type freeCase struct {
	Workers int // 0 = nil pool
	Calls   []Call
	Body    string // instant, gosched, spin, sleep
}

func body(kind string) {
	switch kind {
	case "gosched":
		runtime.Gosched()
	case "spin":
		x := 0
		for i := 0; i < 2000; i++ {
			x += i
		}
		_ = x
	case "sleep":
		time.Sleep(20 * time.Microsecond)
	}
}

// runFree executes the calls without the scheduler; a watchdog decides deadlock by goroutine states.
func runFree(c freeCase) *pbt.Fail {
	resetOverrun()
	s := newScheduler()
	var p *pool.Pool
	if c.Workers > 0 {
		p = pool.NewPool(c.Workers)
	}
	for callNo, call := range c.Calls {
		done := make(chan []interface{}, 1)
		started := make(chan int, 1)
		var attempts, successes, late int64
		var returned int32
		go func(call Call) {
			started <- curGID()
			if call.Search {
				r := p.Search(call.Count, func() interface{} {
					body(c.Body)
					k := int(atomic.AddInt64(&attempts, 1) - 1)
					if len(call.Succ) == 0 || call.Succ[k%len(call.Succ)] {
						if call.Dry && atomic.AddInt64(&successes, 1) > int64(call.Count) {
							return dryQuery(&returned, &late)
						}
						return k + 1
					}
					return nil
				})
				atomic.StoreInt32(&returned, 1)
				done <- r
			} else {
				done <- p.Parallelize(call.Count, func(i int) interface{} { body(c.Body); return i * i })
			}
		}(call)
		s.caller = <-started
		var vals []interface{}
		deadline := time.Now().Add(60 * time.Second)
	wait:
		for {
			select {
			case vals = <-done:
				break wait
			default:
			}
			snap := snapshot()
			all := true
			for _, g := range s.managed(snap) {
				if !blockedState(g.state) {
					all = false
				}
			}
			if g, ok := snap[s.caller]; ok && all && g.inPool {
				runtime.Gosched()
				snap2 := snapshot()
				again := true
				for _, g := range s.managed(snap2) {
					if !blockedState(g.state) {
						again = false
					}
				}
				if again && len(done) == 0 {
					return pbt.Failf("deadlock:call", fmt.Sprintf("free-running call %d (%+v) of %d workers never returns: caller and all workers are blocked", callNo, call, c.Workers))
				}
			}
			if atomic.LoadInt32(&overrun) == 1 {
				return overrunFail(callNo, call)
			}
			if time.Now().After(deadline) {
				return pbt.Failf("inconclusive:free-run", "call did not finish in 60s")
			}
			runtime.Gosched()
		}
		if f := checkResults(call, vals, callNo); f != nil {
			return f
		}
	}
	if p != nil {
		if f := census(s, p, c.Workers); f != nil {
			return f
		}
		p.TearDown()
	}
	return nil
}

var freeProp = pbt.Define(pbt.Prop[freeCase]{Kind: "pool-free", Journal: true, Run: runFree,
	Class: func(c freeCase) (string, bool) {
		searches := 0
		for _, call := range c.Calls {
			if call.Search {
				searches++
			}
		}
		return fmt.Sprintf("free|W=%d|calls=%d|search=%v|%s", c.Workers, bucket(len(c.Calls)), searches > 0, c.Body), len(c.Calls) > 1 || c.Workers == 0
	},
})

func bucket(n int) int {
	switch {
	case n <= 1:
		return 1
	case n <= 5:
		return 5
	case n <= 20:
		return 20
	}
	return 50
}

func TestFree(t *testing.T) {
	rapid.Check(t, func(rt *rapid.T) {
		c := freeCase{Workers: rapid.IntRange(0, 8).Draw(rt, "workers"), Body: rapid.SampledFrom([]string{"instant", "instant", "gosched", "spin", "sleep"}).Draw(rt, "body")}
		n := rapid.IntRange(1, 50).Draw(rt, "calls")
		for i := 0; i < n; i++ {
			call := Call{Search: rapid.Bool().Draw(rt, "search"), Count: rapid.IntRange(0, 40).Draw(rt, "count")}
			if call.Search {
				call.Count = rapid.IntRange(0, 6).Draw(rt, "scount")
				call.Succ = rapid.SampledFrom([][]bool{nil, {true, false}, {false, false, false, true}, {true}}).Draw(rt, "succ")
				call.Dry = rapid.IntRange(0, 3).Draw(rt, "dry") == 0
			}
			c.Calls = append(c.Calls, call)
		}
		freeProp.One(rt, c)
	})
}

// TestStress: tight loops of instant tasks with a census every k calls (no hooks involved).
func TestStress(t *testing.T) {
	rec := ev.Get()
	iters := 3000
	if rec.Thorough() {
		iters = 60000
	}
	for w := 1; w <= 4; w++ {
		if !rec.Mine(w) {
			continue
		}
		for chunk := 0; chunk < iters/500; chunk++ {
			c := freeCase{Workers: w, Body: "instant"}
			for i := 0; i < 500; i++ {
				c.Calls = append(c.Calls, Call{Count: 1 + (i+chunk)%3})
			}
			rec.Journal("pool-free", c)
			f := runFree(c)
			rec.Case(fmt.Sprintf("stress|W=%d", w), true, nil)
			rec.Count("stress_calls", 500)
			if f != nil {
				if strings.HasPrefix(f.Sig, "inconclusive") {
					rec.Count("inconclusive", 1)
					return
				}
				if rec.Report(t, "pool-free", f.Sig, f.Detail, c) {
					return
				}
			}
		}
	}
}
