package c18

import (
	"sync/atomic"
	"bytes"
	"fmt"
	"runtime"
	"sort"
	"strconv"
	"strings"
	"sync"
	"time"

	"github.com/taurusgroup/multi-party-sig/pkg/pool"
)

// ---- goroutine introspection -----------------------------------------------------------------

type gInfo struct {
	id      int
	state   string // "chan send", "chan receive", "select", "runnable", "running", ...
	stack   string
	worker  bool // created by pool.NewPool
	inHook  bool // parked inside the harness yield hook
	inPool  bool // innermost library frame is in pkg/pool
	created string
}

func curGID() int {
	var buf [64]byte
	n := runtime.Stack(buf[:], false)
	// "goroutine 123 [running]:"
	f := bytes.Fields(buf[:n])
	id, _ := strconv.Atoi(string(f[1]))
	return id
}

func snapshot() map[int]*gInfo {
	buf := make([]byte, 256<<10)
	for {
		n := runtime.Stack(buf, true)
		if n < len(buf) {
			buf = buf[:n]
			break
		}
		buf = make([]byte, 2*len(buf))
	}
	out := map[int]*gInfo{}
	for _, blk := range strings.Split(string(buf), "\n\n") {
		if !strings.HasPrefix(blk, "goroutine ") {
			continue
		}
		head := blk[:strings.Index(blk, "\n")+0]
		if i := strings.Index(blk, "\n"); i >= 0 {
			head = blk[:i]
		}
		var id int
		var st string
		if _, err := fmt.Sscanf(head, "goroutine %d [", &id); err != nil {
			continue
		}
		if i, j := strings.Index(head, "["), strings.LastIndex(head, "]"); i >= 0 && j > i {
			st = head[i+1 : j]
		}
		if k := strings.Index(st, ","); k >= 0 {
			st = st[:k]
		}
		g := &gInfo{id: id, state: st, stack: blk}
		g.worker = strings.Contains(blk, "created by github.com/taurusgroup/multi-party-sig/pkg/pool.NewPool")
		g.inHook = strings.Contains(blk, "c18.(*scheduler).hook")
		g.inPool = strings.Contains(blk, "multi-party-sig/pkg/pool.")
		out[id] = g
	}
	return out
}

func blockedState(s string) bool {
	return s == "chan send" || s == "chan receive" || s == "select" || s == "chan send (nil chan)" || s == "chan receive (nil chan)" || s == "select (no cases)"
}

// ---- the scheduler ---------------------------------------------------------------------------

type parkedG struct {
	gid     int
	label   string
	release chan struct{}
}

type scheduler struct {
	mu      sync.Mutex
	parked  map[int]*parkedG
	caller  int          // gid of the goroutine running the pool call
	extra   map[int]bool // further managed goroutines (census tasks are recognised by the pool frames below them)
	free    bool         // free mode: the hook does not park
	trace   []string
	names   map[int]string // gid -> C / W0 / W1 ...
	workers []int
	ignore  map[int]bool // workers of earlier pools that never exited (lost before this case started)
}

// newScheduler must be called before the pool under test is created: pool workers that already
// exist belong to earlier cases and are ignored.
func newScheduler() *scheduler {
	s := &scheduler{parked: map[int]*parkedG{}, names: map[int]string{}, extra: map[int]bool{}, ignore: map[int]bool{}}
	for _, g := range snapshot() {
		if g.worker {
			s.ignore[g.id] = true
		}
	}
	return s
}

func (s *scheduler) hook(label string) {
	s.mu.Lock()
	if s.free {
		s.mu.Unlock()
		return
	}
	g := &parkedG{gid: curGID(), label: label, release: make(chan struct{})}
	s.parked[g.gid] = g
	s.mu.Unlock()
	<-g.release
}

func (s *scheduler) install()   { pool.SetYieldHook(s.hook) }
func (s *scheduler) uninstall() { pool.SetYieldHook(nil) }

// managed returns the goroutines the scheduler cares about: the caller and the pool workers.
func (s *scheduler) managed(snap map[int]*gInfo) []*gInfo {
	var out []*gInfo
	for _, g := range snap {
		if (g.worker && !s.ignore[g.id]) || g.id == s.caller || s.extra[g.id] {
			out = append(out, g)
		}
	}
	sort.Slice(out, func(i, j int) bool { return out[i].id < out[j].id })
	return out
}

// quiesce waits until every managed goroutine is parked at a yield point or blocked in the runtime.
// It returns the quiescent snapshot. It never decides anything by elapsed time; the deadline only
// turns an unexpected busy state into "inconclusive".
func (s *scheduler) quiesce() (map[int]*gInfo, bool) {
	deadline := time.Now().Add(20 * time.Second)
	stable := 0
	var lastSig string
	for {
		snap := snapshot()
		s.mu.Lock()
		ok := true
		var sig strings.Builder
		for _, g := range s.managed(snap) {
			_, isParked := s.parked[g.id]
			switch {
			case g.inHook && isParked && g.state == "chan receive":
				fmt.Fprintf(&sig, "%d:parked;", g.id)
			case !g.inHook && !isParked && blockedState(g.state):
				fmt.Fprintf(&sig, "%d:%s;", g.id, g.state)
			default:
				ok = false
			}
		}
		// a goroutine registered as parked must be visible as such
		for gid := range s.parked {
			if g, present := snap[gid]; !present || !g.inHook {
				ok = false
			}
		}
		s.mu.Unlock()
		if ok {
			if sig.String() == lastSig {
				stable++
			} else {
				stable, lastSig = 1, sig.String()
			}
			if stable >= 2 {
				return snap, true
			}
		} else {
			stable = 0
		}
		if time.Now().After(deadline) || atomic.LoadInt32(&overrun) == 1 {
			return snap, false
		}
		runtime.Gosched()
	}
}

func (s *scheduler) name(snap map[int]*gInfo, gid int) string {
	if n, ok := s.names[gid]; ok {
		return n
	}
	if gid == s.caller {
		s.names[gid] = "C"
		return "C"
	}
	// workers are named by creation order
	var ws []int
	for _, g := range snap {
		if g.worker && !s.ignore[g.id] {
			ws = append(ws, g.id)
		}
	}
	sort.Ints(ws)
	for i, id := range ws {
		if _, ok := s.names[id]; !ok {
			s.names[id] = fmt.Sprintf("W%d", i)
		}
	}
	if n, ok := s.names[gid]; ok {
		return n
	}
	return fmt.Sprintf("g%d", gid)
}

// options lists the parked goroutines in canonical order.
func (s *scheduler) options(snap map[int]*gInfo) []*parkedG {
	s.mu.Lock()
	defer s.mu.Unlock()
	var out []*parkedG
	for _, g := range s.parked {
		out = append(out, g)
	}
	sort.Slice(out, func(i, j int) bool { return s.name(snap, out[i].gid) < s.name(snap, out[j].gid) })
	return out
}

func (s *scheduler) releaseOne(snap map[int]*gInfo, g *parkedG) {
	s.mu.Lock()
	delete(s.parked, g.gid)
	s.trace = append(s.trace, s.name(snap, g.gid)+"@"+g.label)
	s.mu.Unlock()
	close(g.release)
}

// setFree switches to free mode and releases everybody.
func (s *scheduler) setFree() {
	s.mu.Lock()
	s.free = true
	ps := s.parked
	s.parked = map[int]*parkedG{}
	s.mu.Unlock()
	for _, g := range ps {
		close(g.release)
	}
}
