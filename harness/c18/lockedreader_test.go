package c18

import (
	"bytes"
	"errors"
	"fmt"
	"runtime"
	"testing"

	"github.com/taurusgroup/multi-party-sig/pkg/pool"
	"github.com/taurusgroup/multi-party-sig/verifharness/pbt"
	"pgregory.net/rapid"
)

// pool.LockedReader is what the pool's users hand to the workers as their random source ("returning the same output
// as the underlying reader ... safe to call concurrently"). Model: a scripted reader whose calls return a chosen number
// of bytes or an error; the wrapped reader must return exactly the same (n, err, bytes) for every call of the history,
// including the calls AFTER one that failed, and no call may block: a read parked on the reader's own mutex while
// nothing else is running is a definite deadlock (decided from the goroutine's state, not from a clock).

type readStep struct {
	Len  int  // buffer length of the call
	Give int  // bytes the underlying reader delivers (<= Len); ignored when Fail
	Fail bool // the underlying reader returns an error
}

type lrCase struct {
	Steps []readStep
}

type scripted struct {
	steps []readStep
	pos   int
	next  byte
}

var errScripted = errors.New("scripted read error")

func (s *scripted) Read(p []byte) (int, error) {
	st := s.steps[s.pos]
	s.pos++
	if st.Fail {
		return 0, errScripted
	}
	n := st.Give
	if n > len(p) {
		n = len(p)
	}
	for i := 0; i < n; i++ {
		p[i] = s.next
		s.next++
	}
	return n, nil
}

func lrRun(c lrCase) *pbt.Fail {
	under := &scripted{steps: c.Steps}
	model := &scripted{steps: c.Steps}
	lr := pool.NewLockedReader(under)
	for i, st := range c.Steps {
		want := make([]byte, st.Len)
		wn, werr := model.Read(want)
		got := make([]byte, st.Len)
		type res struct {
			n   int
			err error
		}
		done := make(chan res, 1)
		gid := make(chan int, 1)
		go func() {
			gid <- curGID()
			n, err := lr.Read(got)
			done <- res{n, err}
		}()
		g := <-gid
		var r res
		blocked := 0
	wait:
		for {
			select {
			case r = <-done:
				break wait
			default:
			}
			if info, ok := snapshot()[g]; ok && (info.state == "sync.Mutex.Lock" || info.state == "semacquire") {
				blocked++
				if blocked >= 3 {
					return pbt.Failf("locked-reader-deadlock", fmt.Sprintf("read %d of the history blocks forever on the reader's own lock (no other call is in flight); history %+v", i, c.Steps[:i+1]))
				}
			} else {
				blocked = 0
			}
			runtime.Gosched()
		}
		if r.n != wn || (r.err == nil) != (werr == nil) || !bytes.Equal(got[:r.n], want[:wn]) {
			return pbt.Failf("locked-reader-output", fmt.Sprintf("read %d returns (%d, %v), the underlying reader returned (%d, %v)", i, r.n, r.err, wn, werr))
		}
	}
	return nil
}

var lrProp = pbt.Define(pbt.Prop[lrCase]{Kind: "locked-reader", Run: lrRun, Class: func(c lrCase) (string, bool) {
	fails, short := 0, 0
	for _, s := range c.Steps {
		if s.Fail {
			fails++
		} else if s.Give < s.Len {
			short++
		}
	}
	return fmt.Sprintf("lockedreader|steps=%d|errors=%d|short=%d", len(c.Steps), fails, short), fails > 0 || short > 0
}})

func TestLockedReader(t *testing.T) {
	rapid.Check(t, func(rt *rapid.T) {
		n := rapid.IntRange(1, 8).Draw(rt, "steps")
		var c lrCase
		for i := 0; i < n; i++ {
			l := rapid.IntRange(0, 40).Draw(rt, "len")
			c.Steps = append(c.Steps, readStep{Len: l, Give: rapid.IntRange(0, l).Draw(rt, "give"), Fail: rapid.IntRange(0, 4).Draw(rt, "fail") == 0})
		}
		lrProp.One(rt, c)
	})
}
