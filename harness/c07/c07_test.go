package c07

import (
	"bytes"
	"crypto/rand"
	"errors"
	"fmt"
	"sort"
	"strings"
	"testing"

	"github.com/taurusgroup/multi-party-sig/pkg/party"
	"github.com/taurusgroup/multi-party-sig/verifharness/conv"
	"github.com/taurusgroup/multi-party-sig/verifharness/ev"
	"github.com/taurusgroup/multi-party-sig/verifharness/fix"
	"github.com/taurusgroup/multi-party-sig/verifharness/pbt"
	"github.com/taurusgroup/multi-party-sig/verifharness/proto"
	"github.com/taurusgroup/multi-party-sig/verifharness/sim"
	"github.com/taurusgroup/multi-party-sig/verifharness/tape"
	"pgregory.net/rapid"
)

func TestMain(m *testing.M)   { pbt.Main(m) }
func TestReplay(t *testing.T) { pbt.Replay(t) }
func TestCorpus(t *testing.T) { pbt.Corpus(t) }

// Case is one honest session under one generated delivery schedule.
type Case struct {
	Proto   string
	Pattern string // toy only
	N, T    int
	Family  string
	Seed    uint64
	Sched   []int // low 12 bits: which pending delivery; bit 12: also re-queue a duplicate
	Foreign []int // v: inject foreign message number v/64 before step v%64
	FKind   string
}

// build returns the session described by the case (and, for signing, the material it needs).
func build(c Case, sessionID string) (*proto.Session, error) {
	ids := fix.IDs(c.Family, c.N, 0)
	switch c.Proto {
	case proto.Toy:
		return &proto.Session{Proto: proto.Toy, Pattern: c.Pattern, SessionID: []byte(sessionID), IDs: fix.SortedIDs(ids)}, nil
	case proto.XOR:
		return &proto.Session{Proto: proto.XOR, SessionID: []byte(sessionID), IDs: fix.SortedIDs(ids)}, nil
	case proto.FrostKeygen, proto.FrostKeygenTap, proto.CMPKeygen:
		return &proto.Session{Proto: c.Proto, SessionID: []byte(sessionID), IDs: fix.SortedIDs(ids), T: c.T}, nil
	case proto.DoernerKeygen:
		return &proto.Session{Proto: c.Proto, SessionID: []byte(sessionID), IDs: ids[:2], T: 1}, nil
	case proto.DoernerSign:
		m, err := proto.Keygen(proto.SchemeDoerner, c.Seed+77, ids[:2], 1, sim.FIFO)
		if err != nil {
			return nil, err
		}
		return m.SignSession(proto.DoernerSign, m.IDs, []byte("c07 message"), []byte(sessionID)), nil
	case proto.FrostSign, proto.FrostSignTap, proto.CMPSign, proto.CMPPresign, proto.CMPPresignFull:
		scheme := proto.SchemeCMP
		if c.Proto == proto.FrostSign {
			scheme = proto.SchemeFrost
		} else if c.Proto == proto.FrostSignTap {
			scheme = proto.SchemeFrostTap
		}
		m, err := proto.Deal(scheme, c.Seed+77, ids, c.T)
		if err != nil {
			return nil, err
		}
		var msg []byte
		if c.Proto != proto.CMPPresign {
			msg = []byte("c07 message to be signed, 32 b..")
		}
		return m.SignSession(c.Proto, m.IDs, msg, []byte(sessionID)), nil
	}
	return nil, fmt.Errorf("unknown protocol %s", c.Proto)
}

func results(n *sim.Net) (map[string][]byte, *pbt.Fail) {
	out := map[string][]byte{}
	for _, p := range n.Parties {
		o := p.Outcome()
		if !o.Finished {
			return nil, pbt.Failf("incomplete", fmt.Sprintf("party %q did not complete: %v", p.Name, o.Err))
		}
		b, err := proto.ResultBytes(o.Value)
		if err != nil {
			return nil, pbt.Failf("result-encoding", err.Error())
		}
		out[p.Name] = b
	}
	return out, nil
}

func simFail(err error) *pbt.Fail {
	var pe *sim.PanicError
	if errors.As(err, &pe) {
		return pbt.Failf("panic", pe.Error()+"\n"+pe.Stack)
	}
	var he *sim.HangError
	if errors.As(err, &he) && !he.Definite {
		return pbt.Failf("inconclusive:hang", err.Error())
	}
	if strings.Contains(err.Error(), "step timeout") {
		return pbt.Failf("inconclusive:timeout", err.Error())
	}
	return pbt.Failf("error", err.Error())
}

// runOne executes the session under a chooser, with optional foreign injections.
func runOne(c Case, s *proto.Session, choose sim.Chooser, foreign []*sim.Msg) (*sim.Net, *pbt.Fail) {
	mux := tape.Install(c.Seed)
	defer mux.Uninstall()
	if s.Proto == proto.CMPKeygen {
		defer fix.InstallPrimeSource(int(c.Seed % 31))()
	}
	n := sim.New(mux)
	if err := s.AddAll(n); err != nil {
		return n, simFail(err)
	}
	inj := map[int][]int{}
	for _, v := range c.Foreign {
		inj[v%64] = append(inj[v%64], v/64)
	}
	for len(n.Pending) > 0 {
		if n.Steps > 20000 {
			return n, pbt.Failf("runaway", "more than 20000 deliveries")
		}
		if len(foreign) > 0 {
			for _, k := range inj[n.Steps] {
				m := sim.Clone(foreign[k%len(foreign)])
				// hand it to every party it is addressed to (as the transport would)
				for _, p := range n.Parties {
					if m.IsFor(p.ID) {
						n.Inject("foreign", sim.Clone(m), p.Name, true)
					}
				}
			}
			delete(inj, n.Steps)
		}
		i, dup := choose(n)
		if err := n.Step(i, dup); err != nil {
			return n, simFail(err)
		}
	}
	return n, nil
}

// shape summarises how the executed schedule differs from in-order delivery, from the per-party logs.
func shape(n *sim.Net) (kinds []string) {
	set := map[string]bool{}
	for _, p := range n.Parties {
		maxRound := 0
		seenB := map[string]bool{}
		seen := map[string]bool{}
		for _, e := range p.Log {
			m := e.M
			key := fmt.Sprintf("%s/%d/%v/%s", m.From, m.RoundNumber, m.Broadcast, m.To)
			if string(m.SSID) != "" && !e.Accepted {
				set["rejected-by-canaccept"] = true
			}
			if seen[key] {
				set["duplicate"] = true
				if int(m.RoundNumber) < maxRound {
					set["stale"] = true
				}
			}
			seen[key] = true
			if int(m.RoundNumber) < maxRound {
				set["later-round-first"] = true
			}
			if int(m.RoundNumber) > maxRound {
				maxRound = int(m.RoundNumber)
			}
			if m.Broadcast {
				seenB[fmt.Sprintf("%s/%d", m.From, m.RoundNumber)] = true
			} else if !seenB[fmt.Sprintf("%s/%d", m.From, m.RoundNumber)] {
				set["p2p-before-broadcast"] = true // only meaningful in rounds that have both
			}
		}
	}
	for k := range set {
		kinds = append(kinds, k)
	}
	sort.Strings(kinds)
	return
}

var lastShape string

func run(c Case) *pbt.Fail {
	s, err := build(c, "c07-main")
	if err != nil {
		return pbt.Failf("setup", err.Error())
	}
	// in-order baseline with the same party randomness
	bn, f := runOne(Case{Seed: c.Seed, Proto: c.Proto}, s, sim.FIFO, nil)
	if f != nil {
		f.Sig = "baseline-" + f.Sig
		return f
	}
	base, f := results(bn)
	if f != nil {
		f.Sig = "baseline-" + f.Sig
		return f
	}
	// foreign traffic: the same parties running another session (other session id, or other protocol)
	var foreign []*sim.Msg
	if len(c.Foreign) > 0 {
		fc := c
		if c.FKind == "other-protocol" {
			fc.Proto, fc.Pattern = proto.Toy, "xb"
			if c.Proto == proto.Toy {
				fc.Proto = proto.XOR
			}
			if c.N < 2 {
				fc.N = 2
			}
		}
		fs, err := build(fc, "c07-foreign")
		if err == nil {
			if strings.HasPrefix(fc.Proto, "cmp-") {
				// a second complete CMP session costs seconds: use the first-round traffic of the foreign session only
				mux := tape.Install(c.Seed + 1)
				fn := sim.New(mux)
				if fs.AddAll(fn) == nil {
					for _, p := range fn.Parties {
						foreign = append(foreign, p.Sent...)
					}
				}
				mux.Uninstall()
			} else if fn, ff := runOne(Case{Seed: c.Seed + 1, Proto: fc.Proto}, fs, sim.FIFO, nil); ff == nil {
				for _, p := range fn.Parties {
					foreign = append(foreign, p.Sent...)
				}
			}
		}
	}
	s2, err := build(c, "c07-main")
	if err != nil {
		return pbt.Failf("setup", err.Error())
	}
	n, f := runOne(c, s2, sim.FromList(c.Sched), foreign)
	lastShape = strings.Join(shape(n), ",")
	if f != nil {
		return f
	}
	got, f := results(n)
	if f != nil {
		return f
	}
	for name, b := range base {
		if !bytes.Equal(got[name], b) {
			return pbt.Failf("result-differs-from-in-order-run:"+c.Proto, fmt.Sprintf("party %q: %s vs in-order %s (schedule kinds: %s)", name, conv.Hex(trunc(got[name])), conv.Hex(trunc(b)), lastShape))
		}
	}
	return nil
}

func trunc(b []byte) []byte {
	if len(b) > 48 {
		return b[:48]
	}
	return b
}

var prop = pbt.Define(pbt.Prop[Case]{Kind: "schedule", Run: run, Class: func(c Case) (string, bool) {
	k := lastShape
	if len(c.Foreign) > 0 {
		k += ",foreign:" + c.FKind
	}
	return fmt.Sprintf("%s%s|n=%d|%s", c.Proto, c.Pattern, c.N, k), k != ""
}})

func genCase(t *rapid.T, protos []string, maxN int) Case {
	c := Case{Proto: rapid.SampledFrom(protos).Draw(t, "proto")}
	minN := 2
	switch c.Proto {
	case proto.DoernerKeygen, proto.DoernerSign:
		c.N, c.T = 2, 1
	default:
		c.N = rapid.IntRange(minN, maxN).Draw(t, "n")
		c.T = rapid.IntRange(0, c.N-1).Draw(t, "t")
	}
	if c.Proto == proto.Toy {
		c.Pattern = rapid.StringMatching("[bpx]{1,4}").Draw(t, "pattern")
	}
	c.Family = rapid.SampledFrom([]string{"letters", "prefix", "nonascii", "mixed"}).Draw(t, "family")
	c.Seed = rapid.Uint64Range(1, 1<<40).Draw(t, "seed")
	c.Sched = rapid.SliceOfN(rapid.IntRange(0, 8191), 0, 120).Draw(t, "sched")
	if rapid.IntRange(0, 2).Draw(t, "withForeign") == 0 {
		c.Foreign = rapid.SliceOfN(rapid.IntRange(0, 64*40-1), 1, 6).Draw(t, "foreign")
		c.FKind = rapid.SampledFrom([]string{"other-session-id", "other-protocol"}).Draw(t, "fkind")
	}
	return c
}

func TestToyRandom(t *testing.T) {
	rapid.Check(t, func(rt *rapid.T) { prop.One(rt, genCase(rt, []string{proto.Toy, proto.Toy, proto.XOR}, 5)) })
}

func TestFrostDoerner(t *testing.T) {
	rapid.Check(t, func(rt *rapid.T) {
		prop.One(rt, genCase(rt, []string{proto.FrostKeygen, proto.FrostKeygenTap, proto.FrostSign, proto.FrostSignTap, proto.DoernerKeygen, proto.DoernerSign}, 5))
	})
}

func TestCMP(t *testing.T) {
	rapid.Check(t, func(rt *rapid.T) {
		prop.One(rt, genCase(rt, []string{proto.CMPSign, proto.CMPPresign, proto.CMPPresignFull}, 3))
	})
}

// ---------------------------------------------------------------------------------------------
// exhaustive exploration of delivery interleavings on toy protocols

type explorer struct {
	c       Case
	target  string // "" = all global interleavings; otherwise only this party's order is branched
	base    map[string][]byte
	visited map[string]bool
	states  int
	leaves  int
	replays int
	fail    *pbt.Fail
	failAt  []string
	limit   int
	cut     bool
}

func did(d *sim.Delivery) string {
	return fmt.Sprintf("%s>%s/%d/%v", d.From, d.To, d.M.RoundNumber, d.M.Broadcast)
}

func (e *explorer) fresh() (*sim.Net, *tape.Mux) {
	s, err := build(e.c, "c07-exh")
	if err != nil {
		panic(err)
	}
	mux := tape.Install(e.c.Seed)
	n := sim.New(mux)
	if err := s.AddAll(n); err != nil {
		panic(err)
	}
	return n, mux
}

func (e *explorer) deliver(n *sim.Net, id string) bool {
	for i, d := range n.Pending {
		if did(d) == id {
			if err := n.Step(i, false); err != nil {
				e.fail = simFail(err)
				return false
			}
			return true
		}
	}
	panic("replay: delivery " + id + " not pending")
}

// settle delivers everything not addressed to the target, in canonical order (target mode only).
func (e *explorer) settle(n *sim.Net, path *[]string) bool {
	if e.target == "" {
		return true
	}
	for {
		found := -1
		for i, d := range n.Pending {
			if d.To != e.target {
				found = i
				break
			}
		}
		if found < 0 {
			return true
		}
		*path = append(*path, did(n.Pending[found]))
		if err := n.Step(found, false); err != nil {
			e.fail = simFail(err)
			return false
		}
	}
}

func key(per map[string][]string) string {
	names := make([]string, 0, len(per))
	for k := range per {
		names = append(names, k)
	}
	sort.Strings(names)
	var b strings.Builder
	for _, k := range names {
		b.WriteString(k + ":" + strings.Join(per[k], ",") + ";")
	}
	return b.String()
}

func (e *explorer) dfs(n *sim.Net, mux *tape.Mux, path []string, per map[string][]string) {
	if e.fail != nil || e.cut {
		mux.Uninstall()
		return
	}
	if !e.settle(n, &path) {
		e.failAt = path
		mux.Uninstall()
		return
	}
	if len(n.Pending) == 0 {
		e.leaves++
		got, f := results(n)
		if f == nil {
			for name, b := range e.base {
				if !bytes.Equal(got[name], b) {
					f = pbt.Failf("result-differs-from-in-order-run:toy", fmt.Sprintf("party %q under interleaving %v", name, path))
				}
			}
		}
		if f != nil {
			e.fail, e.failAt = f, path
		}
		mux.Uninstall()
		return
	}
	ids := make([]string, 0, len(n.Pending))
	tos := map[string]string{}
	for _, d := range n.Pending {
		ids = append(ids, did(d))
		tos[did(d)] = d.To
	}
	sort.Strings(ids)
	first := true
	for _, id := range ids {
		child := map[string][]string{}
		for k, v := range per {
			child[k] = v
		}
		child[tos[id]] = append(append([]string{}, per[tos[id]]...), id)
		k := key(child)
		if e.visited[k] {
			continue
		}
		e.visited[k] = true
		e.states++
		if e.limit > 0 && e.states > e.limit {
			e.cut = true
			break
		}
		cn, cm := n, mux
		if !first {
			// siblings need the parent state again: replay it from scratch
			mux.Uninstall()
			cn, cm = e.fresh()
			e.replays++
			for _, p := range path {
				if !e.deliver(cn, p) {
					cm.Uninstall()
					return
				}
			}
			mux = cm
		}
		first = false
		if !e.deliver(cn, id) {
			e.failAt = append(path, id)
			cm.Uninstall()
			return
		}
		e.dfs(cn, cm, append(append([]string{}, path...), id), child)
		if e.fail != nil || e.cut {
			return
		}
		// the child consumed (and uninstalled) the network; continue with replays for the remaining siblings
		first = false
		mux = tape.Install(e.c.Seed) // placeholder so that the Uninstall below stays balanced
	}
	mux.Uninstall()
}

type exhCase struct {
	Pattern string
	N       int
	Target  string
	Limit   int
}

func exhaust(t ev.Fataler, x exhCase) {
	rec := ev.Get()
	orig := rand.Reader
	defer func() { rand.Reader = orig }()
	c := Case{Proto: proto.Toy, Pattern: x.Pattern, N: x.N, Family: "letters", Seed: 7}
	s, _ := build(c, "c07-exh")
	bn, f := runOne(c, s, sim.FIFO, nil)
	if f != nil {
		rec.Report(t, "toy-exhaustive", "baseline-"+f.Sig, f.Detail, x)
		return
	}
	base, f := results(bn)
	if f != nil {
		rec.Report(t, "toy-exhaustive", "baseline-"+f.Sig, f.Detail, x)
		return
	}
	e := &explorer{c: c, target: x.Target, base: base, visited: map[string]bool{}, limit: x.Limit}
	n, mux := e.fresh()
	e.dfs(n, mux, nil, map[string][]string{})
	space := fmt.Sprintf("toy-%s-n%d-target[%s]", x.Pattern, x.N, x.Target)
	rec.Exhaustive(space, !e.cut && e.fail == nil)
	rec.Count("exhaustive_states", int64(e.states))
	rec.Count("exhaustive_complete_interleaving_classes", int64(e.leaves))
	// every complete interleaving class is one executed case
	for i := 0; i < e.leaves; i++ {
		rec.Case(fmt.Sprintf("exhaustive|%s|n=%d|target=%s|class%d", x.Pattern, x.N, x.Target, i%50), true, nil)
	}
	rec.Case("exhaustive-space|"+space, true, map[string]interface{}{"space": space, "states": e.states, "complete_classes": e.leaves, "cut": e.cut})
	if e.fail != nil {
		rec.Report(t, "toy-exhaustive", e.fail.Sig, e.fail.Detail, map[string]interface{}{"Pattern": x.Pattern, "N": x.N, "Target": x.Target, "Path": e.failAt})
	}
}

func patterns(maxLen int) []string {
	out := []string{}
	var rec func(p string)
	rec = func(p string) {
		if len(p) > 0 {
			out = append(out, p)
		}
		if len(p) == maxLen {
			return
		}
		for _, c := range "bpx" {
			rec(p + string(c))
		}
	}
	rec("")
	return out
}

func exhaustiveSpaces(thorough bool) []exhCase {
	var xs []exhCase
	// all global interleavings, two parties, every pattern up to length 3
	for _, p := range patterns(3) {
		xs = append(xs, exhCase{Pattern: p, N: 2})
	}
	// all global interleavings, three parties, one message round
	xs = append(xs, exhCase{Pattern: "b", N: 3}, exhCase{Pattern: "p", N: 3})
	if thorough {
		xs = append(xs, exhCase{Pattern: "x", N: 3, Limit: 400000})
		xs = append(xs, exhCase{Pattern: "bb", N: 3, Limit: 400000}, exhCase{Pattern: "bp", N: 3, Limit: 400000}, exhCase{Pattern: "pb", N: 3, Limit: 400000})
	}
	// every delivery order at one party (others as far ahead as causality allows), three parties
	pats := patterns(2)
	if thorough {
		pats = append(pats, "bpx", "xbp", "pxb", "bbb", "ppp", "xpx")
	}
	for _, p := range pats {
		if len(p) == 2 && strings.Count(p, "x") == 2 && !thorough {
			continue
		}
		for _, tgt := range []string{"a", "b", "c"} {
			xs = append(xs, exhCase{Pattern: p, N: 3, Target: tgt, Limit: 300000})
		}
	}
	return xs
}

func TestToyExhaustive(t *testing.T) {
	rec := ev.Get()
	for i, x := range exhaustiveSpaces(rec.Thorough()) {
		if !rec.Mine(i) {
			continue
		}
		exhaust(t, x)
	}
}

func init() {
	// replay entry for exhaustive failures: re-run the recorded interleaving
	pbt.Define(pbt.Prop[struct {
		Pattern string
		N       int
		Target  string
		Path    []string
	}]{Kind: "toy-exhaustive", Class: func(struct {
		Pattern string
		N       int
		Target  string
		Path    []string
	}) (string, bool) {
		return "replay", true
	}, Run: func(x struct {
		Pattern string
		N       int
		Target  string
		Path    []string
	}) *pbt.Fail {
		c := Case{Proto: proto.Toy, Pattern: x.Pattern, N: x.N, Family: "letters", Seed: 7}
		s, _ := build(c, "c07-exh")
		bn, f := runOne(c, s, sim.FIFO, nil)
		if f != nil {
			return f
		}
		base, f := results(bn)
		if f != nil {
			return f
		}
		e := &explorer{c: c}
		n, mux := e.fresh()
		defer mux.Uninstall()
		for _, id := range x.Path {
			if !e.deliver(n, id) {
				return e.fail
			}
		}
		if err := n.Run(sim.FIFO, 10000); err != nil {
			return simFail(err)
		}
		got, f := results(n)
		if f != nil {
			return f
		}
		for name, b := range base {
			if !bytes.Equal(got[name], b) {
				return pbt.Failf("result-differs-from-in-order-run:toy", "party "+name)
			}
		}
		return nil
	}})
}

var _ = party.ID("")
