package c13

import (
	"fmt"
	"math/big"
	"reflect"
	"testing"

	"github.com/cronokirby/saferith"
	"github.com/taurusgroup/multi-party-sig/internal/ot"
	"github.com/taurusgroup/multi-party-sig/pkg/hash"
	"github.com/taurusgroup/multi-party-sig/pkg/math/curve"
	"github.com/taurusgroup/multi-party-sig/verifharness/conv"
	"github.com/taurusgroup/multi-party-sig/verifharness/ev"
	"github.com/taurusgroup/multi-party-sig/verifharness/pbt"
	"github.com/taurusgroup/multi-party-sig/verifharness/ref"
	"github.com/taurusgroup/multi-party-sig/verifharness/tape"
	"pgregory.net/rapid"
)

func TestMain(m *testing.M)   { pbt.Main(m) }
func TestReplay(t *testing.T) { pbt.Replay(t) }
func TestCorpus(t *testing.T) { pbt.Corpus(t) }

var group = curve.Secp256k1{}

func ctxHash(label string, use int) *hash.Hash {
	h := hash.New(&hash.BytesWithDomain{TheDomain: "c13", Bytes: []byte(label)})
	_ = h.WriteAny(&hash.BytesWithDomain{TheDomain: "use", Bytes: []byte{byte(use)}})
	return h
}

// Alter describes one value-level alteration of one field of one OT message.
type Alter struct {
	Stage string // "", setup-B, setup-proof, setup-A, setup-challenge, setup-response, setup-decommit, ext-U, ext-X, ext-T, add-pad, mul-rcheck, mul-ucheck
	Index int
	Bit   int
}

func flip(b []byte, bit int) {
	if len(b) == 0 {
		return
	}
	b[(bit/8)%len(b)] ^= 1 << uint(bit%8)
}

// setup runs the correlated-OT setup (128 random OTs) with an optional alteration.
func setup(a Alter) (*ot.CorreOTSendSetup, *ot.CorreOTReceiveSetup, error) {
	h := hash.New(&hash.BytesWithDomain{TheDomain: "c13-setup", Bytes: nil})
	rcv := ot.NewCorreOTSetupReceiver(nil, h.Clone(), group)
	snd := ot.NewCorreOTSetupSender(nil, h.Clone())
	m1 := rcv.Round1()
	switch a.Stage {
	case "setup-B":
		m1.Msg.B = m1.Msg.B.Add(group.NewBasePoint())
	case "setup-proof":
		m1.Msg.BProof.Z.Z = group.NewScalar().Set(m1.Msg.BProof.Z.Z).Add(conv.Scalar(big.NewInt(1)))
	}
	m2, err := snd.Round1(m1)
	if err != nil {
		return nil, nil, err
	}
	i := a.Index % 128
	if a.Stage == "setup-A" {
		// another valid point
		p := group.NewPoint()
		if err := p.UnmarshalBinary(m2.Msgs[i].ABytes); err == nil {
			m2.Msgs[i].ABytes, _ = p.Add(group.NewBasePoint()).MarshalBinary()
		}
	}
	m3, err := rcv.Round2(m2)
	if err != nil {
		return nil, nil, err
	}
	if a.Stage == "setup-challenge" {
		flip(m3.Msgs[i].Challenge[:], a.Bit)
	}
	m4 := snd.Round2(m3)
	if a.Stage == "setup-response" {
		flip(m4.Msgs[i].Response[:], a.Bit)
	}
	m5, rs, err := rcv.Round3(m4)
	if err != nil {
		return nil, nil, err
	}
	if a.Stage == "setup-decommit" {
		if a.Bit%2 == 0 {
			flip(m5.Msgs[i].Decommit0[:], a.Bit)
		} else {
			flip(m5.Msgs[i].Decommit1[:], a.Bit)
		}
	}
	ss, err := snd.Round3(m5)
	if err != nil {
		return nil, nil, err
	}
	return ss, rs, nil
}

func bitAt(i int, data []byte) byte { return (data[i>>3] >> (i & 7)) & 1 }

func scalarOf(s string, rnd []byte) *big.Int {
	switch s {
	case "q-1":
		return new(big.Int).Sub(ref.N, big.NewInt(1))
	case "q-2":
		return new(big.Int).Sub(ref.N, big.NewInt(2))
	case "pow2":
		return new(big.Int).Lsh(big.NewInt(1), uint(rnd[0]))
	case "rand":
		return new(big.Int).Mod(new(big.Int).SetBytes(rnd), ref.N)
	}
	x, _ := new(big.Int).SetString(s, 10)
	return x
}

// ---- layers: random OT

type randCase struct {
	Choice byte
	Seed   uint64
	Nonce  string
}

func randRun(c randCase) *pbt.Fail {
	defer tape.Install(c.Seed).Uninstall()
	h := hash.New()
	msg, sendSetup := ot.RandomOTSetupSend(h.Clone(), group)
	recvSetup, err := ot.RandomOTSetupReceive(h.Clone(), msg)
	if err != nil {
		return pbt.Failf("random-ot-setup", err.Error())
	}
	nonce := make([]byte, 32)
	copy(nonce, conv.UnHex(c.Nonce))
	s := ot.NewRandomOTSender(nonce, sendSetup)
	r := ot.NewRandomOTReceiver(nonce, recvSetup, saferith.Choice(c.Choice&1))
	m1, err := r.Round1()
	if err != nil {
		return pbt.Failf("random-ot-error", err.Error())
	}
	m2, err := s.Round1(&m1)
	if err != nil {
		return pbt.Failf("random-ot-error", err.Error())
	}
	m3 := r.Round2(&m2)
	m4, res, err := s.Round2(&m3)
	if err != nil {
		return pbt.Failf("random-ot-error", err.Error())
	}
	pad, err := r.Round3(&m4)
	if err != nil {
		return pbt.Failf("random-ot-error", err.Error())
	}
	want := res.Rand0
	if c.Choice&1 == 1 {
		want = res.Rand1
	}
	if pad != want {
		return pbt.Failf("random-ot-pad", fmt.Sprintf("receiver with choice %d did not obtain the pad it chose", c.Choice&1))
	}
	if res.Rand0 == res.Rand1 {
		return pbt.Failf("random-ot-equal-pads", "both pads are equal")
	}
	return nil
}

var randProp = pbt.Define(pbt.Prop[randCase]{Kind: "random-ot", Run: randRun, Class: func(c randCase) (string, bool) {
	return fmt.Sprintf("random-ot|choice=%d", c.Choice&1), true
}})

func TestRandomOT(t *testing.T) {
	rapid.Check(t, func(rt *rapid.T) {
		randProp.One(rt, randCase{Choice: rapid.Byte().Draw(rt, "choice"), Seed: rapid.Uint64Range(1, 1<<40).Draw(rt, "seed"),
			Nonce: conv.Hex(rapid.SliceOfN(rapid.Byte(), 32, 32).Draw(rt, "nonce"))})
	})
}

// ---- layers: correlated, extended, additive on one setup

type layerCase struct {
	Layer      string // correlated, extended, additive
	ChoiceKind string // zeros, ones, alternating, random
	Bytes      int    // batch size in bytes (batch = 8*Bytes)
	Choices    string
	Alpha      [2]string
	Rnd        string
	Seed       uint64
	Uses       int
}

func choicesOf(kind string, n int, rnd []byte) []byte {
	out := make([]byte, n)
	for i := range out {
		switch kind {
		case "ones":
			out[i] = 0xFF
		case "alternating":
			out[i] = 0xAA
		case "random":
			out[i] = rnd[i%len(rnd)] ^ byte(i*31)
		}
	}
	return out
}

func layerRun(c layerCase) *pbt.Fail {
	defer tape.Install(c.Seed).Uninstall()
	ss, rs, err := setup(Alter{})
	if err != nil {
		return pbt.Failf("setup-error", err.Error())
	}
	rnd := conv.UnHex(c.Rnd)
	for use := 0; use < c.Uses; use++ {
		choices := choicesOf(c.ChoiceKind, c.Bytes, append(rnd, byte(use)))
		batch := 8 * c.Bytes
		switch c.Layer {
		case "correlated":
			msg, rres := ot.CorreOTReceive(ctxHash("corre", use), rs, choices)
			sres, err := ot.CorreOTSend(ctxHash("corre", use), ss, batch, msg)
			if err != nil {
				return pbt.Failf("correlated-error", err.Error())
			}
			T := conv.Peek(rres, "_T").([][16]byte)
			Q := conv.Peek(sres, "_Q").([][16]byte)
			delta := conv.Peek(ss, "_Delta").([16]byte)
			if len(T) != batch || len(Q) != batch {
				return pbt.Failf("correlated-size", fmt.Sprintf("batch %d: |T|=%d |Q|=%d", batch, len(T), len(Q)))
			}
			for j := 0; j < batch; j++ {
				want := Q[j]
				if bitAt(j, choices) == 1 {
					for k := range want {
						want[k] ^= delta[k]
					}
				}
				if T[j] != want {
					return pbt.Failf("correlated-relation", fmt.Sprintf("t_%d != q_%d xor choice*Delta (batch %d, choices %s, use %d)", j, j, batch, c.ChoiceKind, use))
				}
			}
		case "extended":
			msg, rres := ot.ExtendedOTReceive(ctxHash("ext", use), rs, choices)
			sres, err := ot.ExtendedOTSend(ctxHash("ext", use), ss, batch, msg)
			if err != nil {
				return pbt.Failf("extended-error", err.Error())
			}
			V := conv.Peek(rres, "_VChoices").([][16]byte)
			V0 := conv.Peek(sres, "_V0").([][16]byte)
			V1 := conv.Peek(sres, "_V1").([][16]byte)
			if len(V) != batch || len(V0) != batch || len(V1) != batch {
				return pbt.Failf("extended-size", "result sizes differ from the batch size")
			}
			for j := 0; j < batch; j++ {
				want := V0[j]
				if bitAt(j, choices) == 1 {
					want = V1[j]
				}
				if V[j] != want {
					return pbt.Failf("extended-relation", fmt.Sprintf("receiver's pad %d is not the chosen one (batch %d, choices %s, use %d)", j, batch, c.ChoiceKind, use))
				}
			}
		case "additive":
			alpha := [2]curve.Scalar{conv.Scalar(scalarOf(c.Alpha[0], rnd)), conv.Scalar(scalarOf(c.Alpha[1], rnd))}
			r := ot.NewAdditiveOTReceiver(ctxHash("add", use), rs, group, choices)
			s := ot.NewAdditiveOTSender(ctxHash("add", use), ss, batch, alpha)
			m1 := r.Round1()
			m2, sres, err := s.Round1(m1)
			if err != nil {
				return pbt.Failf("additive-error", err.Error())
			}
			rres, err := r.Round2(m2)
			if err != nil {
				return pbt.Failf("additive-error", err.Error())
			}
			if len(rres) != batch || len(sres) != batch {
				return pbt.Failf("additive-size", "result sizes differ from the batch size")
			}
			for j := 0; j < batch; j++ {
				for k := 0; k < 2; k++ {
					sum := new(big.Int).Add(conv.Big(rres[j][k]), conv.Big(sres[j][k]))
					sum.Mod(sum, ref.N)
					want := new(big.Int)
					if bitAt(j, choices) == 1 {
						want = conv.Big(alpha[k])
					}
					if sum.Cmp(want) != 0 {
						return pbt.Failf("additive-relation", fmt.Sprintf("shares %d/%d do not add up to choice*alpha (batch %d, choices %s)", j, k, batch, c.ChoiceKind))
					}
				}
			}
		}
	}
	return nil
}

var layerProp = pbt.Define(pbt.Prop[layerCase]{Kind: "ot-layer", Run: layerRun, Class: func(c layerCase) (string, bool) {
	return fmt.Sprintf("%s|%s|bytes=%d|uses=%d|a=%s,%s", c.Layer, c.ChoiceKind, c.Bytes, c.Uses, c.Alpha[0], c.Alpha[1]), c.ChoiceKind != "random" || c.Uses > 1 || c.Bytes != 8
}})

var scalarKinds = []string{"0", "1", "2", "q-1", "q-2", "pow2", "rand", "rand"}

func TestLayers(t *testing.T) {
	rapid.Check(t, func(rt *rapid.T) {
		c := layerCase{Layer: rapid.SampledFrom([]string{"correlated", "extended", "additive"}).Draw(rt, "layer"),
			ChoiceKind: rapid.SampledFrom([]string{"zeros", "ones", "alternating", "random"}).Draw(rt, "choices"),
			Bytes:      rapid.IntRange(1, 70).Draw(rt, "bytes"),
			Rnd:        conv.Hex(rapid.SliceOfN(rapid.Byte(), 32, 32).Draw(rt, "rnd")),
			Seed:       rapid.Uint64Range(1, 1<<40).Draw(rt, "seed"),
			Uses:       rapid.IntRange(1, 3).Draw(rt, "uses")}
		c.Alpha = [2]string{rapid.SampledFrom(scalarKinds).Draw(rt, "a0"), rapid.SampledFrom(scalarKinds).Draw(rt, "a1")}
		layerProp.One(rt, c)
	})
}

// TestLargeBatches: "for every batch" includes batches beyond the 672 transfers one multiplication uses. The sizes sit
// around the places where an index or a length changes representation (2^8, 2^16 transfers; a non-multiple of 8 bytes).
func TestLargeBatches(t *testing.T) {
	rec := ev.Get()
	i := 0
	for _, layer := range []string{"correlated", "extended", "additive"} {
		for _, bytes := range []int{32, 33, 255, 256, 257, 8191, 8192, 8200} {
			for _, kind := range []string{"alternating", "random"} {
				if layer == "additive" && bytes > 257 && (kind != "random" || !rec.Thorough()) {
					continue // 65k additive transfers cost ~10 s; thorough only
				}
				i++
				if !rec.Mine(i) {
					continue
				}
				layerProp.One(t, layerCase{Layer: layer, ChoiceKind: kind, Bytes: bytes, Rnd: conv.Hex([]byte{byte(i), 7, 9}), Seed: uint64(1000 + i), Uses: 1, Alpha: [2]string{"rand", "q-1"}})
			}
		}
	}
}

// ---- multiplication end to end, with optional alteration

type mulCase struct {
	A, B  string
	Rnd   string
	Seed  uint64
	Uses  int
	Alter Alter
	// Interleave: all uses are opened first and answered in reverse order (honest uses only)
	Interleave bool
}

func mulRun(c mulCase) *pbt.Fail {
	defer tape.Install(c.Seed).Uninstall()
	ss, rs, err := setup(c.Alter)
	if err != nil {
		if c.Alter.Stage == "" {
			return pbt.Failf("setup-error", err.Error())
		}
		return nil // the alteration was detected during setup
	}
	rnd := conv.UnHex(c.Rnd)
	if c.Interleave && c.Alter.Stage == "" && c.Uses > 1 {
		return mulInterleaved(c, ss, rs, rnd)
	}
	rejected := false
	for use := 0; use < c.Uses; use++ {
		a := scalarOf(c.A, rnd[:16])
		b := scalarOf(c.B, rnd[16:])
		if use > 0 {
			a.Add(a, big.NewInt(int64(use))).Mod(a, ref.N)
		}
		snd := ot.NewMultiplySender(ctxHash("mul", use), ss, conv.Scalar(a))
		rcv, err := ot.NewMultiplyReceiver(ctxHash("mul", use), rs, conv.Scalar(b))
		if err != nil {
			return pbt.Failf("multiply-error", err.Error())
		}
		m1 := rcv.Round1()
		// the alteration hits the FIRST use only: the uses after a rejected request are honest and must still work
		// (the setup outlives a failed multiplication: it is part of the stored key material)
		al := c.Alter
		if use > 0 {
			al = Alter{}
		}
		honestErr := func(err error) *pbt.Fail {
			if rejected {
				return pbt.Failf("multiply-error-after-rejected-request", fmt.Sprintf("honest use %d of the setup fails after an altered %s was rejected in use 0: %v", use, c.Alter.Stage, err))
			}
			return pbt.Failf("multiply-error", err.Error())
		}
		switch al.Stage {
		case "ext-U":
			u := m1.Msg.Msg.CorreMsg.U[al.Index%128]
			flip(u, al.Bit)
		case "ext-X":
			flip(m1.Msg.Msg.X[:], al.Bit)
		case "ext-T":
			tv := reflect.ValueOf(m1.Msg.Msg).Elem().FieldByName("T")
			w := tv.Index(al.Bit % tv.Len())
			w.SetUint(w.Uint() ^ (1 << uint(al.Bit%64)))
		}
		m2, shareS, err := snd.Round1(m1)
		if err != nil {
			if al.Stage == "" {
				return honestErr(err)
			}
			rejected = true
			continue
		}
		switch al.Stage {
		case "add-pad":
			p := m2.Msg.CombinedPads[al.Index%len(m2.Msg.CombinedPads)][al.Bit%2]
			// another valid scalar: +1
			x := new(big.Int).SetBytes(p)
			x.Add(x, big.NewInt(1)).Mod(x, ref.N)
			copy(p, ref.Bytes32(x))
		case "mul-rcheck":
			i := al.Index % len(m2.RCheck)
			m2.RCheck[i] = group.NewScalar().Set(m2.RCheck[i]).Add(conv.Scalar(big.NewInt(1)))
		case "mul-ucheck":
			m2.UCheck = group.NewScalar().Set(m2.UCheck).Add(conv.Scalar(big.NewInt(1)))
		}
		shareR, err := rcv.Round2(m2)
		if err != nil {
			if al.Stage == "" {
				return honestErr(err)
			}
			rejected = true
			continue
		}
		sum := new(big.Int).Add(conv.Big(shareS), conv.Big(shareR))
		sum.Mod(sum, ref.N)
		prod := new(big.Int).Mul(a, b)
		prod.Mod(prod, ref.N)
		if sum.Cmp(prod) != 0 {
			if al.Stage != "" {
				return pbt.Failf("undetected-alteration:"+al.Stage, fmt.Sprintf("altered %s was accepted and the shares add up to a wrong product", al.Stage))
			}
			return pbt.Failf("multiply-wrong-product", fmt.Sprintf("shares add up to %x, a*b = %x (a=%s b=%s use %d)", sum, prod, c.A, c.B, use))
		}
	}
	return nil
}

// mulInterleaved opens all multiplications on the setup first and lets the sender answer them in REVERSE order: uses
// of one setup with distinct nonces are independent of each other.
func mulInterleaved(c mulCase, ss *ot.CorreOTSendSetup, rs *ot.CorreOTReceiveSetup, rnd []byte) *pbt.Fail {
	type sess struct {
		a, b *big.Int
		snd  *ot.MultiplySender
		rcv  *ot.MultiplyReceiver
		m1   *ot.MultiplyReceiveRound1Message
		m2   *ot.MultiplySendRound1Message
		sS   curve.Scalar
	}
	var all []*sess
	for use := 0; use < c.Uses; use++ {
		a := scalarOf(c.A, rnd[:16])
		b := scalarOf(c.B, rnd[16:])
		a.Add(a, big.NewInt(int64(use))).Mod(a, ref.N)
		x := &sess{a: a, b: b, snd: ot.NewMultiplySender(ctxHash("mul", use), ss, conv.Scalar(a))}
		var err error
		if x.rcv, err = ot.NewMultiplyReceiver(ctxHash("mul", use), rs, conv.Scalar(b)); err != nil {
			return pbt.Failf("multiply-error", err.Error())
		}
		x.m1 = x.rcv.Round1()
		all = append(all, x)
	}
	for i := len(all) - 1; i >= 0; i-- {
		var err error
		if all[i].m2, all[i].sS, err = all[i].snd.Round1(all[i].m1); err != nil {
			return pbt.Failf("multiply-error:interleaved", fmt.Sprintf("use %d answered out of order: %v", i, err))
		}
	}
	for i, x := range all {
		sR, err := x.rcv.Round2(x.m2)
		if err != nil {
			return pbt.Failf("multiply-error:interleaved", fmt.Sprintf("use %d answered out of order: %v", i, err))
		}
		sum := new(big.Int).Add(conv.Big(x.sS), conv.Big(sR))
		sum.Mod(sum, ref.N)
		prod := new(big.Int).Mul(x.a, x.b)
		prod.Mod(prod, ref.N)
		if sum.Cmp(prod) != 0 {
			return pbt.Failf("multiply-wrong-product:interleaved", fmt.Sprintf("use %d answered out of order: shares add up to %x, a*b = %x", i, sum, prod))
		}
	}
	return nil
}

var mulProp = pbt.Define(pbt.Prop[mulCase]{Kind: "ot-multiply", Run: mulRun, Class: func(c mulCase) (string, bool) {
	return fmt.Sprintf("multiply|a=%s|b=%s|uses=%d|alter=%s|interleave=%v", c.A, c.B, c.Uses, c.Alter.Stage, c.Interleave && c.Alter.Stage == "" && c.Uses > 1), c.A != "rand" || c.B != "rand" || c.Uses > 1 || c.Alter.Stage != ""
}})

var alterStages = []string{"", "", "", "setup-B", "setup-proof", "setup-A", "setup-challenge", "setup-response", "setup-decommit", "ext-U", "ext-X", "ext-T", "add-pad", "mul-rcheck", "mul-ucheck"}

func TestMultiply(t *testing.T) {
	rapid.Check(t, func(rt *rapid.T) {
		c := mulCase{A: rapid.SampledFrom(scalarKinds).Draw(rt, "a"), B: rapid.SampledFrom(scalarKinds).Draw(rt, "b"),
			Rnd:  conv.Hex(rapid.SliceOfN(rapid.Byte(), 32, 32).Draw(rt, "rnd")),
			Seed: rapid.Uint64Range(1, 1<<40).Draw(rt, "seed"), Uses: rapid.IntRange(1, 3).Draw(rt, "uses")}
		c.Alter = Alter{Stage: rapid.SampledFrom(alterStages).Draw(rt, "stage"), Index: rapid.IntRange(0, 1023).Draw(rt, "index"), Bit: rapid.IntRange(0, 255).Draw(rt, "bit")}
		c.Interleave = rapid.Bool().Draw(rt, "interleave")
		if c.Alter.Stage != "" {
			c.Uses = 1
		}
		mulProp.One(rt, c)
	})
}
