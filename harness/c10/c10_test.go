package c10

import (
	"fmt"
	"math/big"
	"reflect"
	"sort"
	"strings"
	"testing"

	"github.com/cronokirby/saferith"
	"github.com/taurusgroup/multi-party-sig/verifharness/fix"

	"github.com/taurusgroup/multi-party-sig/pkg/hash"
	"github.com/taurusgroup/multi-party-sig/pkg/party"
	"github.com/taurusgroup/multi-party-sig/verifharness/ev"
	"github.com/taurusgroup/multi-party-sig/verifharness/pbt"
	"github.com/taurusgroup/multi-party-sig/verifharness/tape"
	"pgregory.net/rapid"
)

func TestMain(m *testing.M)   { pbt.Main(m) }
func TestReplay(t *testing.T) { pbt.Replay(t) }
func TestCorpus(t *testing.T) { pbt.Corpus(t) }

type Case struct {
	System  string
	W       Wit
	Perturb string // none, public, context-ssid, context-party, context-extra, proof-same, proof-other
	Pick    int    // which public input / proof field (mod the number available)
}

func ctx(ssid, who string, extra bool) *hash.Hash {
	h := hash.New(&hash.BytesWithDomain{TheDomain: "ssid", Bytes: []byte(ssid)})
	_ = h.WriteAny(party.ID(who))
	if extra {
		_ = h.WriteAny(&hash.BytesWithDomain{TheDomain: "extra", Bytes: []byte{1}})
	}
	return h
}

var lastField string

// accepts runs a verification; a panic counts as a rejection (and is counted).
func accepts(f func() bool) bool {
	ok := false
	panicked, _ := ev.Guard(func() { ok = f() })
	if panicked {
		ev.Get().Count("rejected_by_panic", 1)
		return false
	}
	return ok
}

func run(c Case) *pbt.Fail {
	mux := tape.Install(c.W.Seed)
	defer mux.Uninstall()
	lastField = ""
	sys := sysByName(c.System)
	in := sys.build(c.W)
	wc := fmt.Sprintf("%s:x=%s,y=%s", c.System, c.W.X, c.W.Y)
	if outOfRange(c.W.X) || outOfRange(c.W.Y) {
		// range soundness: the library's prover run on a witness far outside the proven range yields a proof whose
		// only flaw is an out-of-range response; it must be rejected
		var proof interface{}
		if panicked, _ := ev.Guard(func() { proof = in.prove(ctx("s1", "prover", false)) }); panicked || proof == nil || reflect.ValueOf(proof).IsNil() {
			ev.Get().Count("range_prover_refused", 1)
			return nil
		}
		if accepts(func() bool { return in.verify(ctx("s1", "prover", false), proof) }) {
			return pbt.Failf("unsound:"+c.System+":range:x="+c.W.X+",y="+c.W.Y, "a proof for a witness far outside the proven range verifies ("+wc+")")
		}
		return nil
	}
	proof := in.prove(ctx("s1", "prover", false))
	if proof == nil || reflect.ValueOf(proof).IsNil() {
		return pbt.Failf("incomplete:"+wc, "prover returned no proof for a witness inside the documented range")
	}
	if !accepts(func() bool { return in.verify(ctx("s1", "prover", false), proof) }) {
		return pbt.Failf("incomplete:"+wc, "an honestly generated proof does not verify")
	}
	reject := func(kind string, f func() bool) *pbt.Fail {
		if accepts(f) {
			return pbt.Failf("unsound:"+c.System+":"+kind, fmt.Sprintf("verification still succeeds after perturbation %s (witness %s)", kind, wc))
		}
		return nil
	}
	switch c.Perturb {
	case "public":
		names := make([]string, 0, len(in.alts))
		for k := range in.alts {
			names = append(names, k)
		}
		sort.Strings(names)
		n := names[c.Pick%len(names)]
		lastField = n
		return reject("public:"+n, func() bool { return in.alts[n](ctx("s1", "prover", false), proof) })
	case "context-ssid":
		return reject("context-ssid", func() bool { return in.verify(ctx("s2", "prover", false), proof) })
	case "context-party":
		return reject("context-party", func() bool { return in.verify(ctx("s1", "someone-else", false), proof) })
	case "context-extra":
		return reject("context-extra", func() bool { return in.verify(ctx("s1", "prover", true), proof) })
	case "proof-same", "proof-other":
		var donor interface{}
		if c.Perturb == "proof-same" {
			donor = in.prove(ctx("s1", "prover", false)) // same statement, fresh prover randomness
			// completeness is not a one-shot property: a second proof from the same witness objects verifies as well
			if donor == nil || reflect.ValueOf(donor).IsNil() || !accepts(func() bool { return in.verify(ctx("s1", "prover", false), donor) }) {
				return pbt.Failf("incomplete:second-proof:"+c.System, "a second honestly generated proof from the same statement and witness does not verify ("+wc+")")
			}
		} else {
			w2 := c.W
			w2.Seed += 1000003
			donor = sys.build(w2).prove(ctx("s1", "prover", false))
		}
		ls := proofLeaves(proof)
		// start at Pick and take the first leaf whose donor value really differs
		for k := 0; k < len(ls); k++ {
			l := ls[(c.Pick+k)%len(ls)]
			mut := cloneProof(reflect.ValueOf(proof))
			dst, src := l.get(mut), l.get(reflect.ValueOf(donor))
			if sameValue(dst, src) {
				continue
			}
			dst.Set(src)
			lastField = l.path
			return reject(c.Perturb+":"+l.path, func() bool { return in.verify(ctx("s1", "prover", false), mut.Interface()) })
		}
		lastField = "no-differing-field"
	case "forged-range":
		// The Pedersen equation s^za t^zb = C * S^e holds for EVERY challenge when the prover sends S = 1 and
		// C = s^za t^zb (computed from the verifier's public parameters, no trapdoor needed). A proof forged like that
		// with a response far outside the proven range (above the Paillier plaintext bound N/2) reaches whatever the
		// verifier does after the Pedersen check. It must be REJECTED: a verifier that panics on it (e.g. by handing
		// the response to paillier.EncWithNonce before the range check) does not reject.
		tuples := forgeTuples[c.System]
		if len(tuples) == 0 {
			return nil
		}
		tu := tuples[c.Pick%len(tuples)]
		ped := fix.PaillierKey(c.W.KB).Ped
		mut := cloneProof(reflect.ValueOf(proof))
		field := func(name string) reflect.Value {
			for _, l := range proofLeaves(proof) {
				if l.path == name || strings.HasSuffix(l.path, "."+name) {
					return l.get(mut)
				}
			}
			panic("forged-range: no field " + name + " in " + c.System)
		}
		huge := new(big.Int).Lsh(big.NewInt(1), 2048+uint(c.Pick%3)*64)
		huge.Add(huge, big.NewInt(int64(c.W.Seed%1000)))
		if c.Pick%2 == 1 {
			huge.Neg(huge)
		}
		za := new(saferith.Int).SetBig(huge, huge.BitLen())
		zb := field(tu[3]).Interface().(*saferith.Int)
		field(tu[0]).Set(reflect.ValueOf(new(saferith.Nat).SetUint64(1)))
		field(tu[2]).Set(reflect.ValueOf(za))
		field(tu[1]).Set(reflect.ValueOf(ped.Commit(za, zb)))
		lastField = tu[2]
		ok := false
		panicked, what := ev.Guard(func() { ok = in.verify(ctx("s1", "prover", false), mut.Interface()) })
		if panicked {
			return pbt.Failf("panic:out-of-range-response:"+c.System+":"+tu[2], fmt.Sprintf("the verifier panics on a forged proof whose Pedersen equation holds (S = 1) and whose response %s is far out of range: %v", tu[2], what))
		}
		if ok {
			return pbt.Failf("unsound:"+c.System+":forged-range:"+tu[2], "a forged proof with an out-of-range response verifies ("+wc+")")
		}
	}
	return nil
}

// forgeTuples: per proof system with range-checked responses, the (S-like commitment, C-like commitment, response a,
// response b) field names of each Pedersen check Aux.Verify(a, b, e, C, S). dec and mul have no proven range for their
// responses and are not listed (DESIGN 10.6).
var forgeTuples = map[string][][4]string{
	"enc":     {{"S", "C", "Z1", "Z3"}},
	"encelg":  {{"S", "T", "Z1", "Z3"}},
	"logstar": {{"S", "D", "Z1", "Z3"}},
	"affg":    {{"S", "E", "Z1", "Z3"}, {"T", "F", "Z2", "Z4"}},
	"affp":    {{"S", "E", "Z1", "Z3"}, {"T", "F", "Z2", "Z4"}},
	"mulstar": {{"S", "E", "Z1", "Z2"}},
	"fac":     {{"P", "A", "Z1", "W1"}, {"Q", "B", "Z2", "W2"}},
}

var prop = pbt.Define(pbt.Prop[Case]{Kind: "zk", Run: run, Class: func(c Case) (string, bool) {
	return fmt.Sprintf("%s|x=%s|y=%s|%s|%s", c.System, c.W.X, c.W.Y, c.Perturb, lastField), c.Perturb != "none" || (c.W.X != "rand" && c.W.X != "key")
}})

var perturbs = []string{"none", "public", "public", "context-ssid", "context-party", "context-extra", "proof-same", "proof-same", "proof-other", "forged-range"}

func gen(t *rapid.T, names []string) Case {
	sys := sysByName(rapid.SampledFrom(names).Draw(t, "system"))
	c := Case{System: sys.name}
	c.W.X = rapid.SampledFrom(sys.xs).Draw(t, "x")
	c.W.Y = rapid.SampledFrom(sys.ys).Draw(t, "y")
	c.W.Seed = rapid.Uint64Range(1, 1<<40).Draw(t, "seed")
	c.W.KA = rapid.IntRange(0, 5).Draw(t, "ka")
	c.W.KB = 6 + rapid.IntRange(0, 5).Draw(t, "kb")
	c.Perturb = rapid.SampledFrom(perturbs).Draw(t, "perturb")
	if outOfRange(c.W.X) || outOfRange(c.W.Y) {
		c.Perturb = "range"
	}
	if sys.name == "nth" && c.W.X != "rand" && c.Perturb != "public" {
		// rho in {1, N-1} makes R an element of order <= 2: R^e does not depend on e (beyond its parity), so such a
		// proof is valid under every challenge by arithmetic necessity; only completeness is meaningful there
		c.Perturb = "none"
	}
	if c.Perturb == "forged-range" && len(forgeTuples[sys.name]) == 0 {
		c.Perturb = "proof-other"
	}
	c.Pick = rapid.IntRange(0, 63).Draw(t, "pick")
	return c
}

var cheap = []string{"sch", "elog", "log", "nth", "enc", "dec", "mul", "logstar", "mulstar", "encelg"}
var costly = []string{"affg", "affp", "fac", "mod", "prm"}

func TestCheap(t *testing.T) {
	rapid.Check(t, func(rt *rapid.T) { prop.One(rt, gen(rt, cheap)) })
}

func TestCostly(t *testing.T) {
	rapid.Check(t, func(rt *rapid.T) { prop.One(rt, gen(rt, costly)) })
}

// TestFieldSweep visits EVERY proof field and EVERY public input of every system once (substitution by the same field of
// a proof for another statement / replacement of the public input), instead of leaving the choice of the field to
// the random search: a single unbound response is a one-in-(systems x kinds x fields) event there.
func TestFieldSweep(t *testing.T) {
	rec := ev.Get()
	i := 0
	for _, name := range append(append([]string{}, cheap...), costly...) {
		sys := sysByName(name)
		w := Wit{X: sys.xs[len(sys.xs)-1], Y: sys.ys[len(sys.ys)-1], Seed: 77, KA: 1, KB: 7}
		for outOfRange(w.X) {
			w.X = "rand"
		}
		for outOfRange(w.Y) {
			w.Y = "rand"
		}
		if name == "fac" || name == "mod" || name == "prm" {
			w.X = "key"
		}
		nLeaves, nAlts := -1, -1
		count := func() {
			if nLeaves >= 0 {
				return
			}
			mux := tape.Install(w.Seed)
			in := sys.build(w)
			nLeaves, nAlts = len(proofLeaves(in.prove(ctx("s1", "prover", false)))), len(in.alts)
			mux.Uninstall()
		}
		for k := 0; k < 64; k++ {
			i++
			if !rec.Mine(i) {
				continue
			}
			count()
			if k < nLeaves {
				prop.One(t, Case{System: name, W: w, Perturb: "proof-other", Pick: k})
			}
			if k < nAlts {
				prop.One(t, Case{System: name, W: w, Perturb: "public", Pick: k})
			}
			if k < 2*len(forgeTuples[name]) {
				prop.One(t, Case{System: name, W: w, Perturb: "forged-range", Pick: k})
			}
		}
	}
}
