package c10

import (
	"reflect"
	"strings"

	"github.com/fxamacker/cbor/v2"
	"github.com/taurusgroup/multi-party-sig/verifharness/tape"
)

type streamReader = tape.Stream

func newStream(seed uint64, label string) *streamReader { return tape.NewStream(seed, label, 0) }

// ---- generic proof surgery through reflection

func isZKStruct(t reflect.Type) bool {
	return t.Kind() == reflect.Struct && strings.Contains(t.PkgPath(), "/pkg/zk/")
}

// cloneProof copies the proof's own structure (structs, pointers to zk structs, arrays); leaves are shared.
func cloneProof(v reflect.Value) reflect.Value {
	switch {
	case v.Kind() == reflect.Ptr && !v.IsNil() && isZKStruct(v.Type().Elem()):
		n := reflect.New(v.Type().Elem())
		n.Elem().Set(cloneProof(v.Elem()))
		return n
	case isZKStruct(v.Type()):
		n := reflect.New(v.Type()).Elem()
		n.Set(v)
		for i := 0; i < v.NumField(); i++ {
			if v.Type().Field(i).IsExported() {
				n.Field(i).Set(cloneProof(v.Field(i)))
			}
		}
		return n
	case v.Kind() == reflect.Array:
		n := reflect.New(v.Type()).Elem()
		for i := 0; i < v.Len(); i++ {
			n.Index(i).Set(cloneProof(v.Index(i)))
		}
		return n
	}
	return v
}

type leaf struct {
	path string
	get  func(root reflect.Value) reflect.Value
}

// leaves enumerates the exported leaf fields of a proof (arrays: first and last element only).
func leaves(t reflect.Type, path string, get func(reflect.Value) reflect.Value) []leaf {
	switch {
	case t.Kind() == reflect.Ptr && isZKStruct(t.Elem()):
		return leaves(t.Elem(), path, func(r reflect.Value) reflect.Value { return get(r).Elem() })
	case isZKStruct(t):
		var out []leaf
		for i := 0; i < t.NumField(); i++ {
			f := t.Field(i)
			if !f.IsExported() {
				continue
			}
			i := i
			out = append(out, leaves(f.Type, path+"."+f.Name, func(r reflect.Value) reflect.Value { return get(r).Field(i) })...)
		}
		return out
	case t.Kind() == reflect.Array:
		var out []leaf
		for _, i := range []int{0, t.Len() - 1} {
			i := i
			out = append(out, leaves(t.Elem(), path+"["+itoa(i)+"]", func(r reflect.Value) reflect.Value { return get(r).Index(i) })...)
		}
		return out
	}
	return []leaf{{path: strings.TrimPrefix(path, "."), get: get}}
}

func itoa(i int) string {
	if i == 0 {
		return "0"
	}
	return "last"
}

func proofLeaves(p interface{}) []leaf {
	return leaves(reflect.TypeOf(p), "", func(r reflect.Value) reflect.Value { return r })
}

func sameValue(a, b reflect.Value) bool {
	x, err1 := cbor.Marshal(a.Interface())
	y, err2 := cbor.Marshal(b.Interface())
	if err1 != nil || err2 != nil {
		return false
	}
	return string(x) == string(y)
}
