package c10

import (
	"fmt"
	"math/big"

	"github.com/cronokirby/saferith"
	"github.com/taurusgroup/multi-party-sig/internal/elgamal"
	"github.com/taurusgroup/multi-party-sig/internal/params"
	"github.com/taurusgroup/multi-party-sig/pkg/hash"
	"github.com/taurusgroup/multi-party-sig/pkg/math/curve"
	"github.com/taurusgroup/multi-party-sig/pkg/math/sample"
	"github.com/taurusgroup/multi-party-sig/pkg/paillier"
	zkaffg "github.com/taurusgroup/multi-party-sig/pkg/zk/affg"
	zkaffp "github.com/taurusgroup/multi-party-sig/pkg/zk/affp"
	zkdec "github.com/taurusgroup/multi-party-sig/pkg/zk/dec"
	zkelog "github.com/taurusgroup/multi-party-sig/pkg/zk/elog"
	zkenc "github.com/taurusgroup/multi-party-sig/pkg/zk/enc"
	zkencelg "github.com/taurusgroup/multi-party-sig/pkg/zk/encelg"
	zkfac "github.com/taurusgroup/multi-party-sig/pkg/zk/fac"
	zklog "github.com/taurusgroup/multi-party-sig/pkg/zk/log"
	zklogstar "github.com/taurusgroup/multi-party-sig/pkg/zk/logstar"
	zkmod "github.com/taurusgroup/multi-party-sig/pkg/zk/mod"
	zkmul "github.com/taurusgroup/multi-party-sig/pkg/zk/mul"
	zkmulstar "github.com/taurusgroup/multi-party-sig/pkg/zk/mulstar"
	zknth "github.com/taurusgroup/multi-party-sig/pkg/zk/nth"
	zkprm "github.com/taurusgroup/multi-party-sig/pkg/zk/prm"
	zksch "github.com/taurusgroup/multi-party-sig/pkg/zk/sch"
	"github.com/taurusgroup/multi-party-sig/verifharness/conv"
	"github.com/taurusgroup/multi-party-sig/verifharness/fix"
	"github.com/taurusgroup/multi-party-sig/verifharness/ref"
)

var group = curve.Secp256k1{}

// inst is one honestly built statement of one proof system.
type inst struct {
	prove  func(h *hash.Hash) interface{}
	verify func(h *hash.Hash, p interface{}) bool
	// alts: verification against the same statement with ONE public input replaced by a different valid value
	alts map[string]func(h *hash.Hash, p interface{}) bool
}

// Wit selects the witness: a class per witness component, a seed for the random parts, and the keys.
type Wit struct {
	X, Y   string // witness classes: 0, 1, -1, max, -max, rand, -rand (ranges) / 1, 2, q-1, rand (scalars)
	Seed   uint64
	KA, KB int // prover / verifier keys from the pool
}

type system struct {
	name   string
	xs, ys []string // admissible witness classes
	build  func(w Wit) *inst
}

var rangeClasses = []string{"0", "1", "-1", "max", "-max", "rand", "-rand"}

// provenClasses: additionally the two classes far outside the proven range. The library's own prover then produces a
// proof whose equations all hold and whose response alone is out of range: |z| = |alpha + e*x| >= 2^(bits+eps) for every
// challenge e != 0, since |x| >= 2^(bits+eps+1) and |alpha| <= 2^(bits+eps). Only the verifier's range check rejects it.
var provenClasses = append(append([]string{}, rangeClasses...), "over", "-over")

func outOfRange(class string) bool {
	return class == "over" || class == "-over" || class == "bigP" || class == "bigQ"
}
var scalarClasses = []string{"1", "2", "q-1", "rand"}

func stream(w Wit, label string) *streamReader { return newStream(w.Seed, label) }

// rangeInt returns an integer of the class within +-2^bits.
func rangeInt(class string, bits int, w Wit, label string) *saferith.Int {
	var x *big.Int
	switch class {
	case "0":
		x = big.NewInt(0)
	case "1":
		x = big.NewInt(1)
	case "-1":
		x = big.NewInt(-1)
	case "max", "-max":
		x = new(big.Int).Lsh(big.NewInt(1), uint(bits))
		x.Sub(x, big.NewInt(1))
		if class == "-max" {
			x.Neg(x)
		}
	case "over", "-over":
		b := make([]byte, bits/8)
		_, _ = stream(w, label).Read(b)
		x = new(big.Int).SetBytes(b)
		x.Add(x, new(big.Int).Lsh(big.NewInt(1), uint(bits+params.Epsilon+1)))
		if class == "-over" {
			x.Neg(x)
		}
		return new(saferith.Int).SetBig(x, x.BitLen())
	default:
		b := make([]byte, bits/8)
		_, _ = stream(w, label).Read(b)
		x = new(big.Int).SetBytes(b)
		if class == "-rand" {
			x.Neg(x)
		}
	}
	return new(saferith.Int).SetBig(x, bits)
}

func scalarOf(class string, w Wit, label string) curve.Scalar {
	switch class {
	case "1":
		return conv.Scalar(big.NewInt(1))
	case "2":
		return conv.Scalar(big.NewInt(2))
	case "q-1":
		return conv.Scalar(new(big.Int).Sub(ref.N, big.NewInt(1)))
	}
	s := sample.Scalar(stream(w, label), group)
	if s.IsZero() {
		return conv.Scalar(big.NewInt(3))
	}
	return s
}

func intScalar(x *saferith.Int) curve.Scalar { return group.NewScalar().SetNat(x.Mod(group.Order())) }

func plusG(p curve.Point) curve.Point { return p.Add(group.NewBasePoint()) }

func otherCt(pk *paillier.PublicKey, w Wit, label string) *paillier.Ciphertext {
	m := rangeInt("rand", 200, w, label)
	return pk.EncWithNonce(m, sample.UnitModN(stream(w, label+"n"), pk.N()))
}

func unit(pk *paillier.PublicKey, w Wit, label string) *saferith.Nat {
	return sample.UnitModN(stream(w, label), pk.N())
}

var systems = []system{
	{"sch", scalarClasses, []string{"base", "gen"}, func(w Wit) *inst {
		x := scalarOf(w.X, w, "x")
		var gen curve.Point
		if w.Y == "gen" {
			gen = scalarOf("rand", w, "gen").ActOnBase()
		}
		X := x.ActOnBase()
		if gen != nil {
			X = x.Act(gen)
		}
		other := scalarOf("rand", w, "othergen").ActOnBase()
		v := func(pub, g curve.Point) func(h *hash.Hash, p interface{}) bool {
			return func(h *hash.Hash, p interface{}) bool { return p.(*zksch.Proof).Verify(h, pub, g) }
		}
		return &inst{
			prove:  func(h *hash.Hash) interface{} { return zksch.NewProof(h, X, x, gen) },
			verify: v(X, gen),
			alts:   map[string]func(h *hash.Hash, p interface{}) bool{"public": v(plusG(X), gen), "gen": v(X, other)},
		}
	}},
	{"mod", []string{"key"}, []string{"-"}, func(w Wit) *inst {
		k, o := fix.PaillierKey(w.KA), fix.PaillierKey(w.KA+1)
		pub := zkmod.Public{N: k.SK.PublicKey.N()}
		v := func(pub zkmod.Public) func(h *hash.Hash, p interface{}) bool {
			return func(h *hash.Hash, p interface{}) bool { return p.(*zkmod.Proof).Verify(pub, h, nil) }
		}
		return &inst{
			prove: func(h *hash.Hash) interface{} {
				return zkmod.NewProof(h, zkmod.Private{P: k.SK.P(), Q: k.SK.Q(), Phi: k.SK.Phi()}, pub, nil)
			},
			verify: v(pub),
			alts:   map[string]func(h *hash.Hash, p interface{}) bool{"N": v(zkmod.Public{N: o.Plain.N()})},
		}
	}},
	{"prm", []string{"key"}, []string{"-"}, func(w Wit) *inst {
		k, o := fix.PaillierKey(w.KA), fix.PaillierKey(w.KA+1)
		pub := zkprm.Public{Aux: k.Ped}
		v := func(pub zkprm.Public) func(h *hash.Hash, p interface{}) bool {
			return func(h *hash.Hash, p interface{}) bool { return p.(*zkprm.Proof).Verify(pub, h, nil) }
		}
		return &inst{
			prove: func(h *hash.Hash) interface{} {
				return zkprm.NewProof(zkprm.Private{Lambda: k.PedLambda, Phi: k.SK.Phi(), P: k.SK.P(), Q: k.SK.Q()}, h, pub, nil)
			},
			verify: v(pub),
			alts:   map[string]func(h *hash.Hash, p interface{}) bool{"Aux": v(zkprm.Public{Aux: o.Ped})},
		}
	}},
	{"fac", []string{"key", "key", "bigP", "bigQ"}, []string{"-"}, func(w Wit) *inst {
		k, o, ver := fix.PaillierKey(w.KA), fix.PaillierKey(w.KA+1), fix.PaillierKey(w.KB)
		pub := zkfac.Public{N: k.Plain.N(), Aux: ver.Ped}
		if w.X == "bigP" || w.X == "bigQ" {
			// an unbalanced modulus of the full size: one 1700-bit and one 348-bit odd factor (the proof's algebra does
			// not need them prime). z = alpha + e*f has about 1950 bits for the big factor f, the bound is 1793 bits.
			odd := func(bits int, label string) *saferith.Nat {
				b := make([]byte, bits/8+1)
				_, _ = stream(w, label).Read(b)
				x := new(big.Int).SetBytes(b)
				x.Mod(x, new(big.Int).Lsh(big.NewInt(1), uint(bits)))
				x.SetBit(x, bits-1, 1)
				x.SetBit(x, 0, 1)
				return new(saferith.Nat).SetBig(x, bits)
			}
			big1, small := odd(1700, "bigfactor"), odd(348, "smallfactor")
			P, Q := big1, small
			if w.X == "bigQ" {
				P, Q = small, big1
			}
			n := new(saferith.Nat).Mul(P, Q, 2048)
			pubU := zkfac.Public{N: saferith.ModulusFromNat(n), Aux: ver.Ped}
			return &inst{
				prove:  func(h *hash.Hash) interface{} { return zkfac.NewProof(zkfac.Private{P: P, Q: Q}, h, pubU) },
				verify: func(h *hash.Hash, p interface{}) bool { return p.(*zkfac.Proof).Verify(pubU, h) },
			}
		}
		v := func(pub zkfac.Public) func(h *hash.Hash, p interface{}) bool {
			return func(h *hash.Hash, p interface{}) bool { return p.(*zkfac.Proof).Verify(pub, h) }
		}
		return &inst{
			prove:  func(h *hash.Hash) interface{} { return zkfac.NewProof(zkfac.Private{P: k.SK.P(), Q: k.SK.Q()}, h, pub) },
			verify: v(pub),
			alts: map[string]func(h *hash.Hash, p interface{}) bool{"N": v(zkfac.Public{N: o.Plain.N(), Aux: ver.Ped}),
				"Aux": v(zkfac.Public{N: k.Plain.N(), Aux: fix.PaillierKey(w.KB + 1).Ped})},
		}
	}},
	{"enc", provenClasses, []string{"-"}, func(w Wit) *inst {
		k, ver := fix.PaillierKey(w.KA), fix.PaillierKey(w.KB)
		x := rangeInt(w.X, params.L, w, "x")
		rho := unit(k.Fast, w, "rho")
		K := k.Fast.EncWithNonce(x, rho)
		pub := zkenc.Public{K: K, Prover: k.Plain, Aux: ver.Ped}
		v := func(pub zkenc.Public) func(h *hash.Hash, p interface{}) bool {
			return func(h *hash.Hash, p interface{}) bool { return p.(*zkenc.Proof).Verify(group, h, pub) }
		}
		return &inst{
			prove:  func(h *hash.Hash) interface{} { return zkenc.NewProof(group, h, pub, zkenc.Private{K: x, Rho: rho}) },
			verify: v(pub),
			alts: map[string]func(h *hash.Hash, p interface{}) bool{
				"K":      v(zkenc.Public{K: otherCt(k.Plain, w, "oK"), Prover: k.Plain, Aux: ver.Ped}),
				"Prover": v(zkenc.Public{K: K, Prover: fix.PaillierKey(w.KA + 1).Plain, Aux: ver.Ped}),
				"Aux":    v(zkenc.Public{K: K, Prover: k.Plain, Aux: fix.PaillierKey(w.KB + 1).Ped})},
		}
	}},
	{"encelg", provenClasses, scalarClasses, func(w Wit) *inst {
		k, ver := fix.PaillierKey(w.KA), fix.PaillierKey(w.KB)
		x := rangeInt(w.X, params.L, w, "x")
		a, b := scalarOf(w.Y, w, "a"), scalarOf("rand", w, "b")
		abx := group.NewScalar().Set(a).Mul(b).Add(intScalar(x))
		rho := unit(k.Fast, w, "rho")
		C := k.Fast.EncWithNonce(x, rho)
		pub := zkencelg.Public{C: C, A: a.ActOnBase(), B: b.ActOnBase(), X: abx.ActOnBase(), Prover: k.Plain, Aux: ver.Ped}
		v := func(pub zkencelg.Public) func(h *hash.Hash, p interface{}) bool {
			return func(h *hash.Hash, p interface{}) bool { return p.(*zkencelg.Proof).Verify(h, pub) }
		}
		alt := func(f func(p *zkencelg.Public)) func(h *hash.Hash, p interface{}) bool {
			q := pub
			f(&q)
			return v(q)
		}
		return &inst{
			prove: func(h *hash.Hash) interface{} {
				return zkencelg.NewProof(group, h, pub, zkencelg.Private{X: x, Rho: rho, A: a, B: b})
			},
			verify: v(pub),
			alts: map[string]func(h *hash.Hash, p interface{}) bool{
				"C":      alt(func(p *zkencelg.Public) { p.C = otherCt(k.Plain, w, "oC") }),
				"A":      alt(func(p *zkencelg.Public) { p.A = plusG(p.A) }),
				"B":      alt(func(p *zkencelg.Public) { p.B = plusG(p.B) }),
				"X":      alt(func(p *zkencelg.Public) { p.X = plusG(p.X) }),
				"Prover": alt(func(p *zkencelg.Public) { p.Prover = fix.PaillierKey(w.KA + 1).Plain }),
				"Aux":    alt(func(p *zkencelg.Public) { p.Aux = fix.PaillierKey(w.KB + 1).Ped })},
		}
	}},
	{"affg", provenClasses, provenClasses, func(w Wit) *inst {
		prv, ver := fix.PaillierKey(w.KA), fix.PaillierKey(w.KB)
		x := rangeInt(w.X, params.L, w, "x")
		y := rangeInt(w.Y, params.LPrime, w, "y")
		Kv := otherCt(ver.Plain, w, "Kv")
		s, r := unit(ver.Plain, w, "s"), unit(prv.Fast, w, "r")
		Dv := Kv.Clone().Mul(ver.Plain, x).Add(ver.Plain, ver.Plain.EncWithNonce(y, s))
		Fp := prv.Fast.EncWithNonce(y, r)
		pub := zkaffg.Public{Kv: Kv, Dv: Dv, Fp: Fp, Xp: intScalar(x).ActOnBase(), Prover: prv.Plain, Verifier: ver.Plain, Aux: ver.Ped}
		v := func(pub zkaffg.Public) func(h *hash.Hash, p interface{}) bool {
			return func(h *hash.Hash, p interface{}) bool { return p.(*zkaffg.Proof).Verify(h, pub) }
		}
		alt := func(f func(p *zkaffg.Public)) func(h *hash.Hash, p interface{}) bool {
			q := pub
			f(&q)
			return v(q)
		}
		return &inst{
			prove: func(h *hash.Hash) interface{} {
				return zkaffg.NewProof(group, h, pub, zkaffg.Private{X: x, Y: y, S: s, R: r})
			},
			verify: v(pub),
			alts: map[string]func(h *hash.Hash, p interface{}) bool{
				"Kv":       alt(func(p *zkaffg.Public) { p.Kv = otherCt(ver.Plain, w, "oKv") }),
				"Dv":       alt(func(p *zkaffg.Public) { p.Dv = otherCt(ver.Plain, w, "oDv") }),
				"Fp":       alt(func(p *zkaffg.Public) { p.Fp = otherCt(prv.Plain, w, "oFp") }),
				"Xp":       alt(func(p *zkaffg.Public) { p.Xp = plusG(p.Xp) }),
				"Prover":   alt(func(p *zkaffg.Public) { p.Prover = fix.PaillierKey(w.KA + 1).Plain }),
				"Verifier": alt(func(p *zkaffg.Public) { p.Verifier = fix.PaillierKey(w.KB + 1).Plain }),
				"Aux":      alt(func(p *zkaffg.Public) { p.Aux = fix.PaillierKey(w.KB + 1).Ped })},
		}
	}},
	{"affp", provenClasses, provenClasses, func(w Wit) *inst {
		prv, ver := fix.PaillierKey(w.KA), fix.PaillierKey(w.KB)
		x := rangeInt(w.X, params.L, w, "x")
		y := rangeInt(w.Y, params.LPrime, w, "y")
		Kv := otherCt(ver.Plain, w, "Kv")
		s, r, rx := unit(ver.Plain, w, "s"), unit(prv.Fast, w, "r"), unit(prv.Fast, w, "rx")
		Dv := Kv.Clone().Mul(ver.Plain, x).Add(ver.Plain, ver.Plain.EncWithNonce(y, s))
		Fp := prv.Fast.EncWithNonce(y, r)
		Xp := prv.Fast.EncWithNonce(x, rx)
		pub := zkaffp.Public{Kv: Kv, Dv: Dv, Fp: Fp, Xp: Xp, Prover: prv.Plain, Verifier: ver.Plain, Aux: ver.Ped}
		v := func(pub zkaffp.Public) func(h *hash.Hash, p interface{}) bool {
			return func(h *hash.Hash, p interface{}) bool { return p.(*zkaffp.Proof).Verify(group, h, pub) }
		}
		alt := func(f func(p *zkaffp.Public)) func(h *hash.Hash, p interface{}) bool {
			q := pub
			f(&q)
			return v(q)
		}
		return &inst{
			prove: func(h *hash.Hash) interface{} {
				return zkaffp.NewProof(group, h, pub, zkaffp.Private{X: x, Y: y, S: s, Rx: rx, R: r})
			},
			verify: v(pub),
			alts: map[string]func(h *hash.Hash, p interface{}) bool{
				"Kv":       alt(func(p *zkaffp.Public) { p.Kv = otherCt(ver.Plain, w, "oKv") }),
				"Dv":       alt(func(p *zkaffp.Public) { p.Dv = otherCt(ver.Plain, w, "oDv") }),
				"Fp":       alt(func(p *zkaffp.Public) { p.Fp = otherCt(prv.Plain, w, "oFp") }),
				"Xp":       alt(func(p *zkaffp.Public) { p.Xp = otherCt(prv.Plain, w, "oXp") }),
				"Prover":   alt(func(p *zkaffp.Public) { p.Prover = fix.PaillierKey(w.KA + 1).Plain }),
				"Verifier": alt(func(p *zkaffp.Public) { p.Verifier = fix.PaillierKey(w.KB + 1).Plain }),
				"Aux":      alt(func(p *zkaffp.Public) { p.Aux = fix.PaillierKey(w.KB + 1).Ped })},
		}
	}},
	{"logstar", provenClasses, []string{"base", "gen"}, func(w Wit) *inst {
		k, ver := fix.PaillierKey(w.KA), fix.PaillierKey(w.KB)
		x := rangeInt(w.X, params.L, w, "x")
		rho := unit(k.Fast, w, "rho")
		C := k.Fast.EncWithNonce(x, rho)
		var G curve.Point
		X := intScalar(x).ActOnBase()
		if w.Y == "gen" {
			G = scalarOf("rand", w, "G").ActOnBase()
			X = intScalar(x).Act(G)
		}
		pub := zklogstar.Public{C: C, X: X, G: G, Prover: k.Plain, Aux: ver.Ped}
		v := func(pub zklogstar.Public) func(h *hash.Hash, p interface{}) bool {
			return func(h *hash.Hash, p interface{}) bool { return p.(*zklogstar.Proof).Verify(h, pub) }
		}
		alt := func(f func(p *zklogstar.Public)) func(h *hash.Hash, p interface{}) bool {
			q := pub
			f(&q)
			return v(q)
		}
		return &inst{
			prove: func(h *hash.Hash) interface{} {
				return zklogstar.NewProof(group, h, pub, zklogstar.Private{X: x, Rho: rho})
			},
			verify: v(pub),
			alts: map[string]func(h *hash.Hash, p interface{}) bool{
				"C":      alt(func(p *zklogstar.Public) { p.C = otherCt(k.Plain, w, "oC") }),
				"X":      alt(func(p *zklogstar.Public) { p.X = plusG(p.X) }),
				"G":      alt(func(p *zklogstar.Public) { p.G = scalarOf("rand", w, "oG").ActOnBase() }),
				"Prover": alt(func(p *zklogstar.Public) { p.Prover = fix.PaillierKey(w.KA + 1).Plain }),
				"Aux":    alt(func(p *zklogstar.Public) { p.Aux = fix.PaillierKey(w.KB + 1).Ped })},
		}
	}},
	{"elog", scalarClasses, scalarClasses, func(w Wit) *inst {
		y, lambda := scalarOf(w.X, w, "y"), scalarOf(w.Y, w, "lambda")
		H := scalarOf("rand", w, "H").ActOnBase()
		X := scalarOf("rand", w, "X").ActOnBase()
		E := &elgamal.Ciphertext{L: lambda.ActOnBase(), M: y.ActOnBase().Add(lambda.Act(X))}
		pub := zkelog.Public{E: E, ElGamalPublic: X, Base: H, Y: y.Act(H)}
		v := func(pub zkelog.Public) func(h *hash.Hash, p interface{}) bool {
			return func(h *hash.Hash, p interface{}) bool { return p.(*zkelog.Proof).Verify(h, pub) }
		}
		alt := func(f func(p *zkelog.Public)) func(h *hash.Hash, p interface{}) bool {
			q := pub
			f(&q)
			return v(q)
		}
		return &inst{
			prove: func(h *hash.Hash) interface{} {
				return zkelog.NewProof(group, h, pub, zkelog.Private{Y: y, Lambda: lambda})
			},
			verify: v(pub),
			alts: map[string]func(h *hash.Hash, p interface{}) bool{
				"E.L":           alt(func(p *zkelog.Public) { p.E = &elgamal.Ciphertext{L: plusG(E.L), M: E.M} }),
				"E.M":           alt(func(p *zkelog.Public) { p.E = &elgamal.Ciphertext{L: E.L, M: plusG(E.M)} }),
				"ElGamalPublic": alt(func(p *zkelog.Public) { p.ElGamalPublic = plusG(X) }),
				"Base":          alt(func(p *zkelog.Public) { p.Base = plusG(H) }),
				"Y":             alt(func(p *zkelog.Public) { p.Y = plusG(p.Y) })},
		}
	}},
	{"log", scalarClasses, scalarClasses, func(w Wit) *inst {
		a, b := scalarOf(w.X, w, "a"), scalarOf(w.Y, w, "b")
		H := b.ActOnBase()
		pub := zklog.Public{H: H, X: a.ActOnBase(), Y: a.Act(H)}
		v := func(pub zklog.Public) func(h *hash.Hash, p interface{}) bool {
			return func(h *hash.Hash, p interface{}) bool { return p.(*zklog.Proof).Verify(h, pub) }
		}
		alt := func(f func(p *zklog.Public)) func(h *hash.Hash, p interface{}) bool {
			q := pub
			f(&q)
			return v(q)
		}
		return &inst{
			prove:  func(h *hash.Hash) interface{} { return zklog.NewProof(group, h, pub, zklog.Private{A: a, B: b}) },
			verify: v(pub),
			alts: map[string]func(h *hash.Hash, p interface{}) bool{
				"H": alt(func(p *zklog.Public) { p.H = plusG(p.H) }),
				"X": alt(func(p *zklog.Public) { p.X = plusG(p.X) }),
				"Y": alt(func(p *zklog.Public) { p.Y = plusG(p.Y) })},
		}
	}},
	{"nth", []string{"1", "N-1", "rand"}, []string{"-"}, func(w Wit) *inst {
		k := fix.PaillierKey(w.KA)
		var rho *saferith.Nat
		switch w.X {
		case "1":
			rho = new(saferith.Nat).SetUint64(1)
		case "N-1":
			rho = new(saferith.Nat).SetBig(new(big.Int).Sub(k.Ref.N, big.NewInt(1)), 2048)
		default:
			rho = unit(k.Plain, w, "rho")
		}
		R := k.Plain.ModulusSquared().Exp(rho, k.Plain.N().Nat())
		pub := zknth.Public{N: k.Plain, R: R}
		v := func(pub zknth.Public) func(h *hash.Hash, p interface{}) bool {
			return func(h *hash.Hash, p interface{}) bool { return p.(*zknth.Proof).Verify(h, pub) }
		}
		oR := k.Plain.ModulusSquared().Exp(unit(k.Plain, w, "orho"), k.Plain.N().Nat())
		return &inst{
			prove:  func(h *hash.Hash) interface{} { return zknth.NewProof(h, pub, zknth.Private{Rho: rho}) },
			verify: v(pub),
			alts: map[string]func(h *hash.Hash, p interface{}) bool{
				"R": v(zknth.Public{N: k.Plain, R: oR}),
				"N": v(zknth.Public{N: fix.PaillierKey(w.KA + 1).Plain, R: R})},
		}
	}},
	{"dec", rangeClasses, []string{"-"}, func(w Wit) *inst {
		k, ver := fix.PaillierKey(w.KA), fix.PaillierKey(w.KB)
		y := rangeInt(w.X, params.L, w, "y")
		rho := unit(k.Fast, w, "rho")
		C := k.Fast.EncWithNonce(y, rho)
		pub := zkdec.Public{C: C, X: intScalar(y), Prover: k.Plain, Aux: ver.Ped}
		v := func(pub zkdec.Public) func(h *hash.Hash, p interface{}) bool {
			return func(h *hash.Hash, p interface{}) bool { return p.(*zkdec.Proof).Verify(h, pub) }
		}
		alt := func(f func(p *zkdec.Public)) func(h *hash.Hash, p interface{}) bool {
			q := pub
			f(&q)
			return v(q)
		}
		return &inst{
			prove:  func(h *hash.Hash) interface{} { return zkdec.NewProof(group, h, pub, zkdec.Private{Y: y, Rho: rho}) },
			verify: v(pub),
			alts: map[string]func(h *hash.Hash, p interface{}) bool{
				"C":      alt(func(p *zkdec.Public) { p.C = otherCt(k.Plain, w, "oC") }),
				"X":      alt(func(p *zkdec.Public) { p.X = group.NewScalar().Set(p.X).Add(conv.Scalar(big.NewInt(1))) }),
				"Prover": alt(func(p *zkdec.Public) { p.Prover = fix.PaillierKey(w.KA + 1).Plain }),
				"Aux":    alt(func(p *zkdec.Public) { p.Aux = fix.PaillierKey(w.KB + 1).Ped })},
		}
	}},
	{"mul", rangeClasses, []string{"-"}, func(w Wit) *inst {
		k := fix.PaillierKey(w.KA)
		x := rangeInt(w.X, params.L, w, "x")
		rhoX, rho := unit(k.Fast, w, "rhoX"), unit(k.Fast, w, "rho")
		X := k.Fast.EncWithNonce(x, rhoX)
		Y := otherCt(k.Plain, w, "Y")
		C := Y.Clone().Mul(k.Plain, x)
		C.Randomize(k.Plain, rho)
		pub := zkmul.Public{X: X, Y: Y, C: C, Prover: k.Plain}
		v := func(pub zkmul.Public) func(h *hash.Hash, p interface{}) bool {
			return func(h *hash.Hash, p interface{}) bool { return p.(*zkmul.Proof).Verify(group, h, pub) }
		}
		alt := func(f func(p *zkmul.Public)) func(h *hash.Hash, p interface{}) bool {
			q := pub
			f(&q)
			return v(q)
		}
		return &inst{
			prove: func(h *hash.Hash) interface{} {
				return zkmul.NewProof(group, h, pub, zkmul.Private{X: x, Rho: rho, RhoX: rhoX})
			},
			verify: v(pub),
			alts: map[string]func(h *hash.Hash, p interface{}) bool{
				"X":      alt(func(p *zkmul.Public) { p.X = otherCt(k.Plain, w, "oX") }),
				"Y":      alt(func(p *zkmul.Public) { p.Y = otherCt(k.Plain, w, "oY") }),
				"C":      alt(func(p *zkmul.Public) { p.C = otherCt(k.Plain, w, "oC") }),
				"Prover": alt(func(p *zkmul.Public) { p.Prover = fix.PaillierKey(w.KA + 1).Plain })},
		}
	}},
	{"mulstar", provenClasses, []string{"-"}, func(w Wit) *inst {
		ver := fix.PaillierKey(w.KB)
		x := rangeInt(w.X, params.L, w, "x")
		C := otherCt(ver.Plain, w, "C")
		rho := unit(ver.Plain, w, "rho")
		D := C.Clone().Mul(ver.Plain, x)
		D.Randomize(ver.Plain, rho)
		pub := zkmulstar.Public{C: C, D: D, X: intScalar(x).ActOnBase(), Verifier: ver.Plain, Aux: ver.Ped}
		v := func(pub zkmulstar.Public) func(h *hash.Hash, p interface{}) bool {
			return func(h *hash.Hash, p interface{}) bool { return p.(*zkmulstar.Proof).Verify(group, h, pub) }
		}
		alt := func(f func(p *zkmulstar.Public)) func(h *hash.Hash, p interface{}) bool {
			q := pub
			f(&q)
			return v(q)
		}
		return &inst{
			prove: func(h *hash.Hash) interface{} {
				return zkmulstar.NewProof(group, h, pub, zkmulstar.Private{X: x, Rho: rho})
			},
			verify: v(pub),
			alts: map[string]func(h *hash.Hash, p interface{}) bool{
				"C":        alt(func(p *zkmulstar.Public) { p.C = otherCt(ver.Plain, w, "oC") }),
				"D":        alt(func(p *zkmulstar.Public) { p.D = otherCt(ver.Plain, w, "oD") }),
				"X":        alt(func(p *zkmulstar.Public) { p.X = plusG(p.X) }),
				"Verifier": alt(func(p *zkmulstar.Public) { p.Verifier = fix.PaillierKey(w.KB + 1).Plain }),
				"Aux":      alt(func(p *zkmulstar.Public) { p.Aux = fix.PaillierKey(w.KB + 1).Ped })},
		}
	}},
}

func sysByName(n string) *system {
	for i := range systems {
		if systems[i].name == n {
			return &systems[i]
		}
	}
	panic(fmt.Sprintf("unknown proof system %q", n))
}
