package ref

import "math/big"

// Paillier is a textbook big-integer implementation (g = 1+N), independent of the library.
type Paillier struct {
	P, Q, N, N2, Phi, PhiInv *big.Int
}

func NewPaillier(p, q *big.Int) *Paillier {
	n := new(big.Int).Mul(p, q)
	phi := new(big.Int).Mul(new(big.Int).Sub(p, big.NewInt(1)), new(big.Int).Sub(q, big.NewInt(1)))
	return &Paillier{P: p, Q: q, N: n, N2: new(big.Int).Mul(n, n), Phi: phi, PhiInv: new(big.Int).ModInverse(phi, n)}
}

// Half is (N-1)/2, the largest admissible plaintext magnitude.
func (k *Paillier) Half() *big.Int {
	h := new(big.Int).Sub(k.N, big.NewInt(1))
	return h.Rsh(h, 1)
}

func (k *Paillier) InRange(m *big.Int) bool { return new(big.Int).Abs(m).Cmp(k.Half()) <= 0 }

// Sym maps x mod N to its representative in [-(N-1)/2, (N-1)/2].
func (k *Paillier) Sym(x *big.Int) *big.Int {
	r := new(big.Int).Mod(x, k.N)
	if r.Cmp(k.Half()) > 0 {
		r.Sub(r, k.N)
	}
	return r
}

// Enc computes (1+N)^m * rho^N mod N^2.
func (k *Paillier) Enc(m, rho *big.Int) *big.Int {
	mm := new(big.Int).Mod(m, k.N)
	c := new(big.Int).Mul(mm, k.N)
	c.Add(c, big.NewInt(1)).Mod(c, k.N2)
	r := new(big.Int).Exp(rho, k.N, k.N2)
	return c.Mul(c, r).Mod(c, k.N2)
}

// Dec computes L(c^phi mod N^2) * phi^-1 mod N, symmetric.
func (k *Paillier) Dec(c *big.Int) *big.Int {
	x := new(big.Int).Exp(c, k.Phi, k.N2)
	x.Sub(x, big.NewInt(1)).Div(x, k.N)
	x.Mul(x, k.PhiInv).Mod(x, k.N)
	return k.Sym(x)
}

func (k *Paillier) Add(c1, c2 *big.Int) *big.Int {
	r := new(big.Int).Mul(c1, c2)
	return r.Mod(r, k.N2)
}

func (k *Paillier) Mul(c, s *big.Int) *big.Int {
	if s.Sign() >= 0 {
		return new(big.Int).Exp(c, s, k.N2)
	}
	inv := new(big.Int).ModInverse(c, k.N2)
	if inv == nil {
		return nil
	}
	return new(big.Int).Exp(inv, new(big.Int).Neg(s), k.N2)
}

// ValidCiphertext: a unit modulo N^2 in (0, N^2).
func (k *Paillier) ValidCiphertext(c *big.Int) bool {
	if c.Sign() <= 0 || c.Cmp(k.N2) >= 0 {
		return false
	}
	return new(big.Int).GCD(nil, nil, c, k.N).Cmp(big.NewInt(1)) == 0
}
