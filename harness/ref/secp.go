// Package ref holds independent reference implementations (math/big + standard library only, plus
// blake3 as a primitive) used as oracles. Nothing here calls the library's arithmetic.
package ref

import (
	"bytes"
	"math/big"
)

var (
	P, _  = new(big.Int).SetString("FFFFFFFFFFFFFFFFFFFFFFFFFFFFFFFFFFFFFFFFFFFFFFFFFFFFFFFEFFFFFC2F", 16)
	N, _  = new(big.Int).SetString("FFFFFFFFFFFFFFFFFFFFFFFFFFFFFFFEBAAEDCE6AF48A03BBFD25E8CD0364141", 16)
	Gx, _ = new(big.Int).SetString("79BE667EF9DCBBAC55A06295CE870B07029BFCDB2DCE28D959F2815B16F81798", 16)
	Gy, _ = new(big.Int).SetString("483ADA7726A3C4655DA4FBFC0E1108A8FD17B448A68554199C47D08FFB10D4B8", 16)
	G     = Pt{X: Gx, Y: Gy}
	seven = big.NewInt(7)
)

// Pt is an affine point of secp256k1; Inf marks the point at infinity.
type Pt struct {
	X, Y *big.Int
	Inf  bool
}

var Infinity = Pt{Inf: true}

func mod(x, m *big.Int) *big.Int { return new(big.Int).Mod(x, m) }

func (a Pt) OnCurve() bool {
	if a.Inf {
		return true
	}
	if a.X.Sign() < 0 || a.X.Cmp(P) >= 0 || a.Y.Sign() < 0 || a.Y.Cmp(P) >= 0 {
		return false
	}
	l := mod(new(big.Int).Mul(a.Y, a.Y), P)
	r := new(big.Int).Mul(a.X, a.X)
	r.Mul(r, a.X).Add(r, seven).Mod(r, P)
	return l.Cmp(r) == 0
}

func (a Pt) Equal(b Pt) bool {
	if a.Inf || b.Inf {
		return a.Inf == b.Inf
	}
	return a.X.Cmp(b.X) == 0 && a.Y.Cmp(b.Y) == 0
}

func (a Pt) Neg() Pt {
	if a.Inf {
		return a
	}
	return Pt{X: new(big.Int).Set(a.X), Y: mod(new(big.Int).Neg(a.Y), P)}
}

func (a Pt) Add(b Pt) Pt {
	if a.Inf {
		return b
	}
	if b.Inf {
		return a
	}
	var lam *big.Int
	if a.X.Cmp(b.X) == 0 {
		if a.Y.Cmp(b.Y) != 0 || a.Y.Sign() == 0 {
			return Infinity
		}
		// doubling: 3x^2 / 2y
		num := new(big.Int).Mul(a.X, a.X)
		num.Mul(num, big.NewInt(3))
		den := new(big.Int).Lsh(a.Y, 1)
		den.ModInverse(den, P)
		lam = num.Mul(num, den).Mod(num, P)
	} else {
		num := new(big.Int).Sub(b.Y, a.Y)
		den := new(big.Int).Sub(b.X, a.X)
		den.Mod(den, P)
		den.ModInverse(den, P)
		lam = num.Mul(num, den).Mod(num, P)
	}
	x := new(big.Int).Mul(lam, lam)
	x.Sub(x, a.X).Sub(x, b.X).Mod(x, P)
	y := new(big.Int).Sub(a.X, x)
	y.Mul(y, lam).Sub(y, a.Y).Mod(y, P)
	return Pt{X: x, Y: y}
}

func (a Pt) Sub(b Pt) Pt { return a.Add(b.Neg()) }

// Mul is double-and-add with k reduced modulo the group order.
func (a Pt) Mul(k *big.Int) Pt {
	k = mod(k, N)
	r := Infinity
	for i := k.BitLen() - 1; i >= 0; i-- {
		r = r.Add(r)
		if k.Bit(i) == 1 {
			r = r.Add(a)
		}
	}
	return r
}

func BaseMul(k *big.Int) Pt { return G.Mul(k) }

// LiftX returns the point with the given x and even y (BIP-340 lift_x).
func LiftX(x *big.Int) (Pt, bool) {
	if x.Sign() < 0 || x.Cmp(P) >= 0 {
		return Pt{}, false
	}
	c := new(big.Int).Mul(x, x)
	c.Mul(c, x).Add(c, seven).Mod(c, P)
	e := new(big.Int).Add(P, big.NewInt(1))
	e.Rsh(e, 2)
	y := new(big.Int).Exp(c, e, P)
	if mod(new(big.Int).Mul(y, y), P).Cmp(c) != 0 {
		return Pt{}, false
	}
	if y.Bit(0) == 1 {
		y.Sub(P, y)
	}
	return Pt{X: new(big.Int).Set(x), Y: y}, true
}

func (a Pt) EvenY() bool { return !a.Inf && a.Y.Bit(0) == 0 }

func Bytes32(x *big.Int) []byte {
	b := make([]byte, 32)
	x.FillBytes(b)
	return b
}

// Compress is SEC1 compressed encoding (33 bytes).
func (a Pt) Compress() []byte {
	out := make([]byte, 33)
	if a.Inf {
		out[0] = 2 // what the library emits for the identity (x = 0)
		return out
	}
	out[0] = 2 + byte(a.Y.Bit(0))
	copy(out[1:], Bytes32(a.X))
	return out
}

// Decompress parses SEC1 compressed encoding strictly.
func Decompress(b []byte) (Pt, bool) {
	if len(b) != 33 || (b[0] != 2 && b[0] != 3) {
		return Pt{}, false
	}
	p, ok := LiftX(new(big.Int).SetBytes(b[1:]))
	if !ok {
		return Pt{}, false
	}
	if b[0] == 3 {
		p = p.Neg()
	}
	return p, true
}

func (a Pt) XBytes() []byte {
	if a.Inf {
		return make([]byte, 32)
	}
	return Bytes32(a.X)
}

func EqualBytes(a, b []byte) bool { return bytes.Equal(a, b) }

// IDScalar is the scalar image of a party identifier: its bytes as a big-endian integer mod n.
func IDScalar(id string) *big.Int {
	return mod(new(big.Int).SetBytes([]byte(id)), N)
}
