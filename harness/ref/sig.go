package ref

import (
	"crypto/hmac"
	"crypto/sha256"
	"crypto/sha512"
	"encoding/binary"
	"io"
	"math/big"

	"github.com/zeebo/blake3"
)

// HashToInt is the ECDSA bits2int for a 256-bit order: the leftmost min(len,32) bytes as an integer.
func HashToInt(h []byte) *big.Int {
	if len(h) > 32 {
		h = h[:32]
	}
	return new(big.Int).SetBytes(h)
}

// ECDSAVerify is textbook ECDSA verification over secp256k1.
func ECDSAVerify(pub Pt, hash []byte, r, s *big.Int) bool {
	if pub.Inf || !pub.OnCurve() {
		return false
	}
	if r.Sign() <= 0 || r.Cmp(N) >= 0 || s.Sign() <= 0 || s.Cmp(N) >= 0 {
		return false
	}
	e := HashToInt(hash)
	w := new(big.Int).ModInverse(s, N)
	u1 := mod(new(big.Int).Mul(e, w), N)
	u2 := mod(new(big.Int).Mul(r, w), N)
	R := BaseMul(u1).Add(pub.Mul(u2))
	if R.Inf {
		return false
	}
	return mod(R.X, N).Cmp(r) == 0
}

// ECDSANoncePoint returns the point u1*G + u2*X that the verification equation yields.
func ECDSANoncePoint(pub Pt, hash []byte, r, s *big.Int) Pt {
	e := HashToInt(hash)
	w := new(big.Int).ModInverse(s, N)
	if w == nil {
		return Infinity
	}
	u1 := mod(new(big.Int).Mul(e, w), N)
	u2 := mod(new(big.Int).Mul(r, w), N)
	return BaseMul(u1).Add(pub.Mul(u2))
}

// ECDSASign is textbook signing with an explicit nonce (used to build reference signatures).
func ECDSASign(d *big.Int, hash []byte, k *big.Int) (r, s *big.Int, R Pt) {
	R = BaseMul(k)
	r = mod(R.X, N)
	e := HashToInt(hash)
	kinv := new(big.Int).ModInverse(k, N)
	s = new(big.Int).Mul(r, d)
	s.Add(s, e).Mul(s, kinv).Mod(s, N)
	return
}

// ECRecover is standard public-key recovery: v in {0,1} is the parity of R.y (r < n assumed to be R.x).
func ECRecover(hash []byte, r, s *big.Int, v byte) (Pt, bool) {
	if r.Sign() <= 0 || r.Cmp(N) >= 0 || s.Sign() <= 0 || s.Cmp(N) >= 0 || v > 1 {
		return Pt{}, false
	}
	R, ok := LiftX(r)
	if !ok {
		return Pt{}, false
	}
	if v == 1 {
		R = R.Neg()
	}
	e := HashToInt(hash)
	rinv := new(big.Int).ModInverse(r, N)
	// Q = r^-1 (s R - e G)
	Q := R.Mul(s).Sub(BaseMul(e)).Mul(rinv)
	if Q.Inf {
		return Pt{}, false
	}
	return Q, true
}

// TaggedHash is BIP-340's tagged hash.
func TaggedHash(tag string, parts ...[]byte) []byte {
	t := sha256.Sum256([]byte(tag))
	h := sha256.New()
	h.Write(t[:])
	h.Write(t[:])
	for _, p := range parts {
		h.Write(p)
	}
	return h.Sum(nil)
}

// BIP340PubKey returns the x-only public key of secret d (0 < d < n).
func BIP340PubKey(d *big.Int) []byte { return BaseMul(d).XBytes() }

// BIP340Sign follows the BIP-340 default signing algorithm with auxiliary randomness aux (32 bytes).
func BIP340Sign(sk *big.Int, msg []byte, aux []byte) ([]byte, bool) {
	if sk.Sign() <= 0 || sk.Cmp(N) >= 0 {
		return nil, false
	}
	Pp := BaseMul(sk)
	d := new(big.Int).Set(sk)
	if !Pp.EvenY() {
		d.Sub(N, d)
	}
	t := Bytes32(d)
	ha := TaggedHash("BIP0340/aux", aux)
	for i := range t {
		t[i] ^= ha[i]
	}
	rand := TaggedHash("BIP0340/nonce", t, Pp.XBytes(), msg)
	k0 := mod(new(big.Int).SetBytes(rand), N)
	if k0.Sign() == 0 {
		return nil, false
	}
	R := BaseMul(k0)
	k := k0
	if !R.EvenY() {
		k = new(big.Int).Sub(N, k0)
	}
	e := mod(new(big.Int).SetBytes(TaggedHash("BIP0340/challenge", R.XBytes(), Pp.XBytes(), msg)), N)
	s := new(big.Int).Mul(e, d)
	s.Add(s, k).Mod(s, N)
	return append(R.XBytes(), Bytes32(s)...), true
}

// BIP340Verify follows the BIP-340 verification algorithm literally.
func BIP340Verify(pk []byte, msg []byte, sig []byte) bool {
	if len(pk) != 32 || len(sig) != 64 {
		return false
	}
	Pp, ok := LiftX(new(big.Int).SetBytes(pk))
	if !ok {
		return false
	}
	r := new(big.Int).SetBytes(sig[:32])
	s := new(big.Int).SetBytes(sig[32:])
	if r.Cmp(P) >= 0 || s.Cmp(N) >= 0 {
		return false
	}
	e := mod(new(big.Int).SetBytes(TaggedHash("BIP0340/challenge", sig[:32], pk, msg)), N)
	R := BaseMul(s).Sub(Pp.Mul(e))
	if R.Inf || !R.EvenY() || R.X.Cmp(r) != 0 {
		return false
	}
	return true
}

// CKDpub is BIP-32 public parent key -> public child key for a non-hardened index.
func CKDpub(parent Pt, chain []byte, index uint32) (child Pt, childChain []byte, ok bool) {
	if index>>31 != 0 {
		return Pt{}, nil, false
	}
	mac := hmac.New(sha512.New, chain)
	mac.Write(parent.Compress())
	var ib [4]byte
	binary.BigEndian.PutUint32(ib[:], index)
	mac.Write(ib[:])
	I := mac.Sum(nil)
	il := new(big.Int).SetBytes(I[:32])
	if il.Cmp(N) >= 0 {
		return Pt{}, nil, false
	}
	child = BaseMul(il).Add(parent)
	if child.Inf {
		return Pt{}, nil, false
	}
	return child, I[32:], true
}

// CKDTweak returns IL as an integer (the scalar added to the parent secret).
func CKDTweak(parent Pt, chain []byte, index uint32) *big.Int {
	mac := hmac.New(sha512.New, chain)
	mac.Write(parent.Compress())
	var ib [4]byte
	binary.BigEndian.PutUint32(ib[:], index)
	mac.Write(ib[:])
	I := mac.Sum(nil)
	return new(big.Int).SetBytes(I[:32])
}

// Item is one framed transcript element: a domain string and a byte string.
type Item struct {
	Domain string
	Bytes  []byte
}

// Transcript models the library's documented transcript framing: the constant prefix "CMP-BLAKE",
// then for every item "(" ‖ len64(domain) ‖ domain ‖ len64(bytes) ‖ bytes ‖ ")", hashed with BLAKE3.
type Transcript struct{ h *blake3.Hasher }

func NewTranscript(items ...Item) *Transcript {
	t := &Transcript{h: blake3.New()}
	_, _ = t.h.WriteString("CMP-BLAKE")
	t.Write(items...)
	return t
}

func (t *Transcript) Write(items ...Item) {
	var sz [8]byte
	for _, it := range items {
		_, _ = t.h.WriteString("(")
		binary.BigEndian.PutUint64(sz[:], uint64(len(it.Domain)))
		_, _ = t.h.Write(sz[:])
		_, _ = t.h.WriteString(it.Domain)
		binary.BigEndian.PutUint64(sz[:], uint64(len(it.Bytes)))
		_, _ = t.h.Write(sz[:])
		_, _ = t.h.Write(it.Bytes)
		_, _ = t.h.WriteString(")")
	}
}

func (t *Transcript) Clone() *Transcript { return &Transcript{h: t.h.Clone()} }

func (t *Transcript) Sum() []byte {
	out := make([]byte, 64)
	_, _ = io.ReadFull(t.h.Digest(), out)
	return out
}

// Scalar reads 32 bytes of the XOF output and reduces them mod n (how the library maps digests to scalars).
func (t *Transcript) Scalar() *big.Int {
	out := make([]byte, 32)
	_, _ = io.ReadFull(t.h.Digest(), out)
	return mod(new(big.Int).SetBytes(out), N)
}

const pointDomain = "*curve.Secp256k1Point"

// SchnorrChallengeGeneric recomputes the challenge of the library's generic (non-Taproot) Schnorr
// signatures: H(R, Y, message) with the framing above.
func SchnorrChallengeGeneric(R, Y Pt, msg []byte) *big.Int {
	t := NewTranscript(Item{pointDomain, R.Compress()}, Item{pointDomain, Y.Compress()})
	if msg != nil {
		t.Write(Item{"messageHash", msg})
	}
	return t.Scalar()
}

// SchnorrVerifyGeneric checks z*G == R + c*Y.
func SchnorrVerifyGeneric(Y, R Pt, z *big.Int, msg []byte) bool {
	if Y.Inf || !Y.OnCurve() || !R.OnCurve() {
		return false
	}
	c := SchnorrChallengeGeneric(R, Y, msg)
	return BaseMul(z).Equal(R.Add(Y.Mul(c)))
}
