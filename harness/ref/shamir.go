package ref

import "math/big"

// LagrangeAtZero returns the coefficients l_j with sum_j l_j * f(x_j) = f(0) over Z_n.
func LagrangeAtZero(xs []*big.Int) []*big.Int {
	out := make([]*big.Int, len(xs))
	for j := range xs {
		num, den := big.NewInt(1), big.NewInt(1)
		for m := range xs {
			if m == j {
				continue
			}
			num.Mul(num, xs[m]).Mod(num, N)
			d := new(big.Int).Sub(xs[m], xs[j])
			den.Mul(den, d).Mod(den, N)
		}
		inv := new(big.Int).ModInverse(den, N)
		if inv == nil {
			inv = big.NewInt(0)
		}
		out[j] = num.Mul(num, inv).Mod(num, N)
	}
	return out
}

// Reconstruct interpolates the secret at 0 from (x_j, share_j).
func Reconstruct(xs, shares []*big.Int) *big.Int {
	l := LagrangeAtZero(xs)
	s := new(big.Int)
	for j := range xs {
		s.Add(s, new(big.Int).Mul(l[j], shares[j]))
	}
	return s.Mod(s, N)
}

// ReconstructPoint interpolates "in the exponent".
func ReconstructPoint(xs []*big.Int, pts []Pt) Pt {
	l := LagrangeAtZero(xs)
	r := Infinity
	for j := range xs {
		r = r.Add(pts[j].Mul(l[j]))
	}
	return r
}

// EvalPoly evaluates a polynomial with the given coefficients (constant first) at x over Z_n.
func EvalPoly(coef []*big.Int, x *big.Int) *big.Int {
	r := new(big.Int)
	for i := len(coef) - 1; i >= 0; i-- {
		r.Mul(r, x).Add(r, coef[i]).Mod(r, N)
	}
	return r
}

// Subsets calls f with every k-subset of {0..n-1}.
func Subsets(n, k int, f func(idx []int)) {
	idx := make([]int, k)
	var rec func(start, d int)
	rec = func(start, d int) {
		if d == k {
			f(append([]int{}, idx...))
			return
		}
		for i := start; i < n; i++ {
			idx[d] = i
			rec(i+1, d+1)
		}
	}
	rec(0, 0)
}
