package adv

import (
	"reflect"

	"github.com/taurusgroup/multi-party-sig/internal/round"
	"github.com/taurusgroup/multi-party-sig/pkg/protocol"
)

// Hooks let a cheater deviate at the level of its protocol state. The real handler still runs the
// cheater (headers, queues, broadcast hashes stay authentic); the hooks see the real round objects.
type Hooks struct {
	// Before is called with the round that is about to be finalized.
	Before func(r round.Session)
	// After is called with the round produced by Finalize (before its messages are released).
	After func(next round.Session)
	// Content may edit an outgoing message produced by that Finalize.
	Content func(next round.Session, msg *round.Message)
}

type proxy struct {
	round.Session
	h *Hooks
}

func (p *proxy) Finalize(out chan<- *round.Message) (round.Session, error) {
	if p.h.Before != nil {
		p.h.Before(p.Session)
	}
	tmp := make(chan *round.Message, 2*p.N()+4)
	next, err := p.Session.Finalize(tmp)
	close(tmp)
	if next != nil && err == nil && p.h.After != nil {
		p.h.After(next)
	}
	for m := range tmp {
		if p.h.Content != nil && err == nil {
			p.h.Content(next, m)
		}
		out <- m
	}
	if err != nil || next == nil {
		return next, err
	}
	return wrap(next, p.h), nil
}

// bproxy additionally forwards the broadcast half of the interface.
type bproxy struct{ proxy }

func (p *bproxy) StoreBroadcastMessage(msg round.Message) error {
	return p.Session.(round.BroadcastRound).StoreBroadcastMessage(msg)
}

func (p *bproxy) BroadcastContent() round.BroadcastContent {
	return p.Session.(round.BroadcastRound).BroadcastContent()
}

func wrap(s round.Session, h *Hooks) round.Session {
	switch s.(type) {
	case *round.Abort, *round.Output:
		return s // the handler type-switches on these
	}
	if _, ok := s.(round.BroadcastRound); ok {
		return &bproxy{proxy{s, h}}
	}
	return &proxy{s, h}
}

// WrapStart makes the party started by f deviate according to h.
func WrapStart(f protocol.StartFunc, h *Hooks) protocol.StartFunc {
	return func(sessionID []byte) (round.Session, error) {
		s, err := f(sessionID)
		if err != nil || s == nil {
			return s, err
		}
		return wrap(s, h), nil
	}
}

// RoundName is the type name of a round, e.g. "*presign.presign3".
func RoundName(r interface{}) string { return reflect.TypeOf(r).String() }

// Field returns the (settable) exported field of a round object, searching embedded earlier rounds.
func Field(r interface{}, name string) (reflect.Value, bool) {
	v := reflect.ValueOf(r)
	for v.Kind() == reflect.Ptr || v.Kind() == reflect.Interface {
		if v.IsNil() {
			return reflect.Value{}, false
		}
		v = v.Elem()
	}
	if v.Kind() != reflect.Struct {
		return reflect.Value{}, false
	}
	if _, ok := v.Type().FieldByName(name); !ok {
		return reflect.Value{}, false
	}
	f := v.FieldByName(name)
	return f, f.IsValid() && f.CanSet()
}
