// Package adv contains the adversary engines: a wire tamperer (alters what the cheater sends), a round
// proxy (makes the cheater deviate at the level of its protocol state while the real handler keeps
// headers, queues and broadcast hashes authentic) and helpers for equivocation.
package adv

import (
	"fmt"

	"github.com/taurusgroup/multi-party-sig/verifharness/mut"
	"github.com/taurusgroup/multi-party-sig/verifharness/sim"
)

// Tamper describes one alteration of the cheater's outgoing traffic.
type Tamper struct {
	Cheater   string // party name
	Round     int
	Broadcast bool
	To        string // recipient of a p2p message ("" = every p2p message of that round)
	Path      string // path inside the CBOR content ("" with Kind "substitute-*")
	Kind      string // value, copy-other-recipient, copy-other-sender, substitute-other-recipient, substitute-other-round
	Variant   int
	// Early: the altered message is not sent in its turn but AHEAD of its round, as the very first delivery of the
	// session (built from the cheater's message of the honest baseline run, which is what it would send later); the
	// genuine message is then not sent any more
	Early bool
}

// Applied records what the tamperer actually did.
type Applied struct {
	Count    int
	LeafKind string
	Generic  string
	Reached  map[string]bool // recipients that were sent an altered message
	// Start is to be called once all parties exist, before the first delivery (early alterations)
	Start func()
}

// Install hooks the tamperer into the network. other is an (already finished) honest run of the same
// session, used as the source of "a value copied from another message".
func (t Tamper) Install(n *sim.Net, other *sim.Net) *Applied {
	ap := &Applied{Reached: map[string]bool{}, Start: func() {}}
	if t.Early {
		return t.installEarly(n, other, ap)
	}
	prev := n.OnEmit
	n.OnEmit = func(from *sim.Party, m *sim.Msg) []*sim.Msg {
		if prev != nil {
			if r := prev(from, m); r != nil {
				return r
			}
		}
		if from.Name != t.Cheater || int(m.RoundNumber) != t.Round || m.Broadcast != t.Broadcast {
			return nil
		}
		if !m.Broadcast && t.To != "" && string(m.To) != t.To {
			return nil
		}
		out := t.apply(m, from, other, ap)
		if out == nil {
			return nil
		}
		ap.Count++
		if m.Broadcast || m.To == "" {
			for _, p := range n.Parties {
				if p.Name != from.Name {
					ap.Reached[p.Name] = true
				}
			}
		} else {
			ap.Reached[string(m.To)] = true
		}
		return []*sim.Msg{out}
	}
	return ap
}

// installEarly: see Tamper.Early.
func (t Tamper) installEarly(n *sim.Net, other *sim.Net, ap *Applied) *Applied {
	src := find(other, t.Cheater, t.Round, t.Broadcast, t.To, "")
	if src == nil || other.Party(t.Cheater) == nil {
		return ap
	}
	alt := t.apply(sim.Clone(src), other.Party(t.Cheater), other, ap)
	if alt == nil {
		return ap
	}
	ap.Start = func() {
		var early []*sim.Delivery
		for _, p := range n.Parties {
			if p.Name == t.Cheater || !alt.IsFor(p.ID) {
				continue
			}
			n.Inject(t.Cheater, sim.Clone(alt), p.Name, false)
			early = append(early, n.Pending[len(n.Pending)-1])
			n.Pending = n.Pending[:len(n.Pending)-1]
			ap.Reached[p.Name] = true
			ap.Count++
		}
		n.Pending = append(early, n.Pending...)
	}
	prev := n.OnEmit
	n.OnEmit = func(from *sim.Party, m *sim.Msg) []*sim.Msg {
		if prev != nil {
			if r := prev(from, m); r != nil {
				return r
			}
		}
		if from.Name == t.Cheater && int(m.RoundNumber) == t.Round && m.Broadcast == t.Broadcast && (m.Broadcast || t.To == "" || string(m.To) == t.To) {
			return []*sim.Msg{} // already sent, ahead of time
		}
		return nil
	}
	return ap
}

func find(n *sim.Net, sender string, round int, broadcast bool, to string, notTo string) *sim.Msg {
	if n == nil {
		return nil
	}
	p := n.Party(sender)
	if p == nil {
		return nil
	}
	for _, m := range p.Sent {
		if int(m.RoundNumber) != round || m.Broadcast != broadcast {
			continue
		}
		if to != "" && string(m.To) != to {
			continue
		}
		if notTo != "" && string(m.To) == notTo {
			continue
		}
		return m
	}
	return nil
}

func (t Tamper) apply(m *sim.Msg, from *sim.Party, other *sim.Net, ap *Applied) *sim.Msg {
	out := sim.Clone(m)
	switch t.Kind {
	case "substitute-other-recipient":
		// the content meant for another recipient, under this message's header
		src := find(other, from.Name, t.Round, false, "", string(m.To))
		if src == nil || m.Broadcast {
			return nil
		}
		out.Data = append([]byte{}, src.Data...)
		ap.Generic, ap.LeafKind = "(whole message)", "message"
		return out
	case "substitute-other-sender":
		// an honest party's message of the same round and kind, re-sent by the cheater under its own name
		for _, p := range other.Parties {
			if p.Name == from.Name {
				continue
			}
			to := ""
			if !m.Broadcast {
				to = string(m.To)
			}
			if src := find(other, p.Name, t.Round, m.Broadcast, to, ""); src != nil {
				out.Data = append([]byte{}, src.Data...)
				ap.Generic, ap.LeafKind = "(whole message of "+p.Name+")", "message"
				return out
			}
		}
		return nil
	case "substitute-other-round":
		// the content of the cheater's message of the same kind from the previous round that has one
		for r := t.Round - 1; r >= 2; r-- {
			if src := find(other, from.Name, r, m.Broadcast, string(m.To), ""); src != nil {
				out.Data = append([]byte{}, src.Data...)
				ap.Generic, ap.LeafKind = "(whole message)", "message"
				return out
			}
		}
		return nil
	}
	root, err := mut.Decode(m.Data)
	if err != nil {
		return nil
	}
	ref := mut.Find(root, t.Path)
	if ref == nil || !ref.Node.IsLeaf() {
		return nil
	}
	ap.Generic, ap.LeafKind = mut.Generic(t.Path), ref.Node.LeafKind()
	var repl *mut.Node
	switch t.Kind {
	case "value":
		v, ok := mut.AlterValue(ref.Node, t.Variant)
		if !ok {
			return nil
		}
		repl = v
	case "copy-other-recipient", "copy-other-sender":
		var src *sim.Msg
		if t.Kind == "copy-other-recipient" {
			if m.Broadcast {
				return nil
			}
			src = find(other, from.Name, t.Round, false, "", string(m.To))
		} else {
			for _, p := range other.Parties {
				if p.Name != from.Name {
					if src = find(other, p.Name, t.Round, m.Broadcast, "", ""); src != nil {
						break
					}
				}
			}
		}
		if src == nil {
			return nil
		}
		sroot, err := mut.Decode(src.Data)
		if err != nil {
			return nil
		}
		sref := mut.Find(sroot, t.Path)
		if sref == nil || !sref.Node.IsLeaf() || string(mut.Encode(sref.Node)) == string(mut.Encode(ref.Node)) {
			return nil
		}
		repl = sref.Node.Clone()
	default:
		panic(fmt.Sprintf("unknown tamper kind %q", t.Kind))
	}
	ref.Replace(repl)
	out.Data = mut.Encode(root)
	return out
}

// LeafPaths lists the leaf paths of a message content.
func LeafPaths(data []byte) []string {
	root, err := mut.Decode(data)
	if err != nil {
		return nil
	}
	var out []string
	for _, r := range mut.Walk(root) {
		if r.Node.IsLeaf() && r.Node.K != mut.Null {
			out = append(out, r.Path)
		}
	}
	return out
}
