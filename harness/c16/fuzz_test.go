package c16

import (
	"testing"

	"pgregory.net/rapid"
)

func genECDSACase(t *rapid.T) ecdsaCase {
	kk, d := genKey(t, "d")
	_, k := genKey(t, "k")
	_, o := genKey(t, "other")
	return ecdsaCase{KeyKind: kk, D: d, K: k, Msg: hexOf(genMsg(t)), Perturb: rapid.SampledFrom(ecdsaPerturbs).Draw(t, "perturb"),
		Arg: rapid.IntRange(0, 1023).Draw(t, "arg"), OtherD: o}
}

// Coverage-guided variants of the differential properties (thorough tier).
func FuzzECDSAVerify(f *testing.F) {
	f.Add([]byte{0})
	f.Fuzz(rapid.MakeFuzz(func(rt *rapid.T) { ecdsaProp.One(rt, genECDSACase(rt)) }))
}

func FuzzBIP340(f *testing.F) {
	f.Add([]byte{0})
	f.Fuzz(rapid.MakeFuzz(func(rt *rapid.T) { bipProp.One(rt, bipProp.Gen(rt)) }))
}
