package c16

import (
	"bytes"
	"fmt"
	"math/big"
	"testing"

	"github.com/taurusgroup/multi-party-sig/pkg/ecdsa"
	"github.com/taurusgroup/multi-party-sig/pkg/math/curve"
	"github.com/taurusgroup/multi-party-sig/pkg/taproot"
	"github.com/taurusgroup/multi-party-sig/verifharness/conv"
	"github.com/taurusgroup/multi-party-sig/verifharness/ev"
	"github.com/taurusgroup/multi-party-sig/verifharness/pbt"
	"github.com/taurusgroup/multi-party-sig/verifharness/ref"
	"pgregory.net/rapid"
)

func TestMain(m *testing.M)   { pbt.Main(m) }
func TestReplay(t *testing.T) { pbt.Replay(t) }
func TestCorpus(t *testing.T) { pbt.Corpus(t) }

var one = big.NewInt(1)

// ---------- generators shared by the three routines

func genKey(t *rapid.T, label string) (string, string) {
	kind := rapid.SampledFrom([]string{"1", "2", "3", "n-1", "n-2", "rand", "rand", "rand"}).Draw(t, label+"Kind")
	var d *big.Int
	switch kind {
	case "1", "2", "3":
		d, _ = new(big.Int).SetString(kind, 10)
	case "n-1":
		d = new(big.Int).Sub(ref.N, one)
	case "n-2":
		d = new(big.Int).Sub(ref.N, big.NewInt(2))
	default:
		b := rapid.SliceOfN(rapid.Byte(), 32, 32).Draw(t, label)
		d = new(big.Int).SetBytes(b)
		d.Mod(d, new(big.Int).Sub(ref.N, one)).Add(d, one)
	}
	return kind, fmt.Sprintf("%064x", d)
}

func genMsg(t *rapid.T) []byte {
	l := rapid.SampledFrom([]int{0, 1, 20, 31, 32, 32, 32, 33, 64, 100, -1}).Draw(t, "msgLen")
	if l < 0 {
		l = rapid.IntRange(0, 100).Draw(t, "msgLenRand")
	}
	return rapid.SliceOfN(rapid.Byte(), l, l).Draw(t, "msg")
}

func lenClass(l int) string {
	switch {
	case l == 0:
		return "0"
	case l < 32:
		return "<32"
	case l == 32:
		return "32"
	default:
		return ">32"
	}
}

// ---------- ECDSA verification

type ecdsaCase struct {
	KeyKind string
	D       string // secret key (hex)
	K       string // nonce (hex)
	Msg     string
	Perturb string
	Arg     int
	OtherD  string
}

var ecdsaPerturbs = []string{"none", "none", "s=0", "s+1", "s=n-s", "R=-R", "R=-R,s=n-s", "R=identity", "R=other", "R=2R",
	"msg-flip", "msg-truncate", "msg-extend", "key=other", "key=-X", "s=1", "r-from-other-R-same-x", "s=0,rogue-key", "s=0,rogue-key"}

func ecdsaRun(c ecdsaCase) *pbt.Fail {
	d, k := conv.BigHex(c.D), conv.BigHex(c.K)
	msg := conv.UnHex(c.Msg)
	X := ref.BaseMul(d)
	r, s, R := ref.ECDSASign(d, msg, k)
	if r.Sign() == 0 || s.Sign() == 0 {
		return nil // outside the domain of valid signatures (probability ~2^-256)
	}
	vmsg := append([]byte{}, msg...)
	switch c.Perturb {
	case "s=0":
		s = new(big.Int)
	case "s=1":
		s = big.NewInt(1)
	case "s+1":
		s = new(big.Int).Add(s, one)
		s.Mod(s, ref.N)
	case "s=n-s":
		s = new(big.Int).Sub(ref.N, s)
	case "R=-R", "r-from-other-R-same-x":
		R = R.Neg()
	case "R=-R,s=n-s":
		R = R.Neg()
		s = new(big.Int).Sub(ref.N, s)
	case "R=identity":
		R = ref.Infinity
	case "R=other":
		R = ref.BaseMul(conv.BigHex(c.OtherD))
	case "R=2R":
		R = R.Add(R)
	case "msg-flip":
		if len(vmsg) > 0 {
			vmsg[c.Arg%len(vmsg)] ^= 1 << uint(c.Arg%8)
		}
	case "msg-truncate":
		if len(vmsg) > 0 {
			vmsg = vmsg[:len(vmsg)-1]
		}
	case "msg-extend":
		vmsg = append(vmsg, byte(c.Arg))
	case "key=other":
		X = ref.BaseMul(conv.BigHex(c.OtherD))
	case "key=-X":
		X = X.Neg()
	case "s=0,rogue-key":
		// the public key for which m*G + r*X is the point at infinity: every inversion-free rewriting of the verification
		// equation (s*R == m*G + r*X) holds for s = 0 under this key, whatever R is
		s = new(big.Int)
		rr := new(big.Int).Mod(R.X, ref.N)
		m := ref.HashToInt(vmsg)
		m.Mod(m, ref.N)
		if rr.Sign() == 0 || m.Sign() == 0 {
			break
		}
		x := new(big.Int).ModInverse(rr, ref.N)
		x.Mul(x, m).Mod(x, ref.N)
		x.Sub(ref.N, x)
		X = ref.BaseMul(x)
	}
	sig := ecdsa.Signature{R: conv.Point(R), S: conv.Scalar(s)}
	got := sig.Verify(conv.Point(X), vmsg)
	// oracle: the standard equation, evaluated on the transmitted nonce point, with r = R.x mod n
	want := false
	if !R.Inf && s.Sign() != 0 {
		rr := new(big.Int).Mod(R.X, ref.N)
		if rr.Sign() != 0 {
			want = ref.ECDSANoncePoint(X, vmsg, rr, s).Equal(R)
			// and the textbook verifier must agree whenever the point-level equation holds
			if want && !ref.ECDSAVerify(X, vmsg, rr, s) {
				return pbt.Failf("ref-inconsistent", "reference verifiers disagree")
			}
		}
	}
	if got != want {
		return pbt.Failf("ecdsa-verify-mismatch:"+c.Perturb, fmt.Sprintf("Signature.Verify=%v, reference=%v (perturbation %s)", got, want, c.Perturb))
	}
	return nil
}

var ecdsaProp = pbt.Define(pbt.Prop[ecdsaCase]{
	Kind: "ecdsa-verify",
	Gen: func(t *rapid.T) ecdsaCase {
		kk, d := genKey(t, "d")
		_, k := genKey(t, "k")
		_, o := genKey(t, "other")
		return ecdsaCase{KeyKind: kk, D: d, K: k, Msg: conv.Hex(genMsg(t)), Perturb: rapid.SampledFrom(ecdsaPerturbs).Draw(t, "perturb"),
			Arg: rapid.IntRange(0, 1023).Draw(t, "arg"), OtherD: o}
	},
	Class: func(c ecdsaCase) (string, bool) {
		return c.KeyKind + "|" + lenClass(len(c.Msg)/2) + "|" + c.Perturb, c.Perturb != "none" || c.KeyKind != "rand" || len(c.Msg) != 64
	},
	Run: ecdsaRun,
})

func TestECDSAVerify(t *testing.T) { ecdsaProp.Check(t) }

// ---------- Ethereum export

type ethCase struct {
	KeyKind string
	D, K    string
	Msg     string
	High    bool // present the high-s form (−R, n−s) of the signature
}

func ethRun(c ethCase) *pbt.Fail {
	d, k := conv.BigHex(c.D), conv.BigHex(c.K)
	msg := conv.UnHex(c.Msg)
	X := ref.BaseMul(d)
	r, s, R := ref.ECDSASign(d, msg, k)
	if r.Sign() == 0 || s.Sign() == 0 || R.X.Cmp(ref.N) >= 0 {
		return nil
	}
	half := new(big.Int).Rsh(ref.N, 1)
	isHigh := s.Cmp(half) > 0
	if isHigh != c.High {
		R = R.Neg()
		s = new(big.Int).Sub(ref.N, s)
	}
	sig := ecdsa.Signature{R: conv.Point(R), S: conv.Scalar(s)}
	Xl := conv.Point(X)
	if !sig.Verify(Xl, msg) {
		return pbt.Failf("eth-precondition", "constructed signature does not verify before export")
	}
	out, err := sig.SigEthereum()
	if err != nil {
		return pbt.Failf("eth-error", err.Error())
	}
	if len(out) != 65 {
		return pbt.Failf("eth-length", fmt.Sprintf("length %d", len(out)))
	}
	r2 := new(big.Int).SetBytes(out[:32])
	s2 := new(big.Int).SetBytes(out[32:64])
	v := out[64]
	if s2.Cmp(half) > 0 {
		return pbt.Failf("eth-high-s", "exported s is above n/2")
	}
	if r2.Cmp(r) != 0 {
		return pbt.Failf("eth-r", "exported r differs from R.x")
	}
	if !ref.ECDSAVerify(X, msg, r2, s2) {
		return pbt.Failf("eth-invalid", "exported (r,s) fails textbook verification")
	}
	Q, ok := ref.ECRecover(msg, r2, s2, v)
	if !ok || !Q.Equal(X) {
		return pbt.Failf("eth-recover", fmt.Sprintf("standard recovery with v=%d does not return the signing key", v))
	}
	// the signature object the caller holds must remain valid
	if !sig.Verify(Xl, msg) {
		return pbt.Failf("eth-original-broken", "signature object no longer verifies after SigEthereum")
	}
	Ra, Sa := conv.Ref(sig.R), conv.Big(sig.S)
	if Ra.Inf || !ref.ECDSANoncePoint(X, msg, new(big.Int).Mod(Ra.X, ref.N), Sa).Equal(Ra) {
		return pbt.Failf("eth-original-broken", "signature object fails the reference equation after SigEthereum")
	}
	return nil
}

var ethProp = pbt.Define(pbt.Prop[ethCase]{
	Kind: "eth-export",
	Gen: func(t *rapid.T) ethCase {
		kk, d := genKey(t, "d")
		_, k := genKey(t, "k")
		return ethCase{KeyKind: kk, D: d, K: k, Msg: conv.Hex(genMsg(t)), High: rapid.Bool().Draw(t, "high")}
	},
	Class: func(c ethCase) (string, bool) {
		return fmt.Sprintf("%s|%s|high=%v", c.KeyKind, lenClass(len(c.Msg)/2), c.High), c.High || c.KeyKind != "rand"
	},
	Run: ethRun,
})

func TestSigEthereum(t *testing.T) { ethProp.Check(t) }

// ---------- BIP-340

type bipCase struct {
	KeyKind string
	D       string
	Aux     string
	Msg     string
	Perturb string
	Arg     int
	K       string
}

var bipPerturbs = []string{"none", "none", "flip-sig", "flip-msg", "flip-key", "r=p", "r=p-1", "r>=p-rand", "s=n", "s=n-s", "s=0", "s+n-overflow",
	"sig-63", "sig-65", "sig-0", "key-31-forgery", "key-33-forgery", "key-33-zero", "key-0", "odd-R", "inf-R", "inf-R,r=0", "key-not-on-curve", "key>=p", "msg-extend", "msg-truncate"}

type oneShot struct{ b []byte }

func (o *oneShot) Read(p []byte) (int, error) {
	n := copy(p, o.b)
	for i := n; i < len(p); i++ {
		p[i] = 0
	}
	return len(p), nil
}

func bipRun(c bipCase) *pbt.Fail {
	d := conv.BigHex(c.D)
	aux := conv.UnHex(c.Aux)
	msg := conv.UnHex(c.Msg)
	sk := taproot.SecretKey(ref.Bytes32(d))
	// 1. public key is x-only of the even-Y key
	pk, err := sk.Public()
	if err != nil {
		return pbt.Failf("bip340-public-error", err.Error())
	}
	wantPk := ref.BIP340PubKey(d)
	if !bytes.Equal(pk, wantPk) {
		return pbt.Failf("bip340-public", "Public() differs from the reference x-only key")
	}
	// 2. signing with given aux bytes reproduces the reference signature
	sig, err := sk.Sign(&oneShot{aux}, msg)
	if err != nil {
		return pbt.Failf("bip340-sign-error", err.Error())
	}
	want, ok := ref.BIP340Sign(d, msg, aux)
	if !ok {
		return nil
	}
	if !bytes.Equal(sig, want) {
		return pbt.Failf("bip340-sign", fmt.Sprintf("Sign differs from the reference: got %x want %x", []byte(sig), want))
	}
	// 3. verification agrees with the reference on the (perturbed) triple
	vsig := append([]byte{}, want...)
	vpk := append([]byte{}, wantPk...)
	vmsg := append([]byte{}, msg...)
	dEven := new(big.Int).Set(d)
	if !ref.BaseMul(d).EvenY() {
		dEven.Sub(ref.N, d)
	}
	Ppt, _ := ref.LiftX(new(big.Int).SetBytes(wantPk))
	zeroR := false
	forge := func(key []byte, k *big.Int, negateK bool, infinite bool) []byte {
		// produce (R.x, s) such that s*G - e*P = R for the challenge computed over `key` as given
		R := ref.BaseMul(k)
		kk := new(big.Int).Set(k)
		if negateK && !R.EvenY() {
			kk.Sub(ref.N, k)
		}
		rx := R.XBytes()
		if zeroR {
			// with infinite: s*G - e*P is the point at infinity and r is the all-zero string some encoders give it
			rx = make([]byte, 32)
		}
		e := new(big.Int).SetBytes(ref.TaggedHash("BIP0340/challenge", rx, key, vmsg))
		e.Mod(e, ref.N)
		s := new(big.Int).Mul(e, dEven)
		if !infinite {
			s.Add(s, kk)
		}
		s.Mod(s, ref.N)
		return append(rx, ref.Bytes32(s)...)
	}
	k := conv.BigHex(c.K)
	switch c.Perturb {
	case "flip-sig":
		vsig[c.Arg%64] ^= 1 << uint(c.Arg%8)
	case "flip-msg":
		if len(vmsg) > 0 {
			vmsg[c.Arg%len(vmsg)] ^= 1 << uint(c.Arg%8)
		}
	case "flip-key":
		vpk[c.Arg%32] ^= 1 << uint(c.Arg%8)
	case "r=p":
		copy(vsig[:32], ref.Bytes32(ref.P))
	case "r=p-1":
		copy(vsig[:32], ref.Bytes32(new(big.Int).Sub(ref.P, one)))
	case "r>=p-rand":
		// x-coordinates in [p, 2^256) alias small x values: r' = r + p is only expressible for r < 2^256 - p
		copy(vsig[:32], ref.Bytes32(new(big.Int).Add(ref.P, big.NewInt(int64(c.Arg)))))
	case "s=n":
		copy(vsig[32:], ref.Bytes32(ref.N))
	case "s=n-s":
		s := new(big.Int).SetBytes(vsig[32:])
		copy(vsig[32:], ref.Bytes32(s.Sub(ref.N, s)))
	case "s=0":
		copy(vsig[32:], make([]byte, 32))
	case "s+n-overflow":
		// s + n aliases s when reduced: only expressible for s < 2^256 - n
		s := new(big.Int).SetBytes(vsig[32:])
		s.Add(s, ref.N)
		if s.BitLen() <= 256 {
			copy(vsig[32:], ref.Bytes32(s))
		}
	case "sig-63":
		vsig = vsig[:63]
	case "sig-65":
		vsig = append(vsig, byte(c.Arg))
	case "sig-0":
		vsig = nil
	case "key-31-forgery":
		// only meaningful for keys whose x has a leading zero byte; otherwise a plain truncation
		if vpk[0] == 0 {
			vpk = vpk[1:]
			vsig = forge(vpk, k, true, false)
		} else {
			vpk = vpk[:31]
		}
	case "key-33-forgery":
		vpk = append(vpk, byte(c.Arg))
		vsig = forge(vpk, k, true, false)
	case "key-33-zero":
		vpk = append([]byte{0}, vpk...)
	case "key-0":
		vpk = nil
	case "odd-R":
		vsig = forge(vpk, k, false, false) // valid iff k*G happens to have even Y
	case "inf-R":
		vsig = forge(vpk, k, false, true)
	case "inf-R,r=0":
		zeroR = true
		vsig = forge(vpk, k, false, true)
	case "key-not-on-curve":
		x := new(big.Int).SetBytes(vpk)
		for i := 0; i < 64; i++ {
			x.Add(x, one)
			if _, ok := ref.LiftX(x); !ok && x.Cmp(ref.P) < 0 {
				break
			}
		}
		vpk = ref.Bytes32(x)
	case "key>=p":
		vpk = ref.Bytes32(new(big.Int).Add(ref.P, big.NewInt(int64(c.Arg))))
	case "msg-extend":
		vmsg = append(vmsg, byte(c.Arg))
	case "msg-truncate":
		if len(vmsg) > 0 {
			vmsg = vmsg[:len(vmsg)-1]
		}
	}
	_ = Ppt
	got := taproot.PublicKey(vpk).Verify(taproot.Signature(vsig), vmsg)
	wantV := ref.BIP340Verify(vpk, vmsg, vsig)
	if c.Perturb == "none" && !wantV {
		return pbt.Failf("ref-inconsistent", "reference rejects its own signature")
	}
	if got != wantV {
		sig := "bip340-verify-mismatch:" + c.Perturb
		if len(vpk) != 32 {
			sig = fmt.Sprintf("bip340-verify-accepts-key-length-%d", len(vpk))
		}
		return pbt.Failf(sig, fmt.Sprintf("PublicKey.Verify=%v, BIP-340 reference=%v (perturbation %s, key length %d, sig length %d)", got, wantV, c.Perturb, len(vpk), len(vsig)))
	}
	return nil
}

var bipProp = pbt.Define(pbt.Prop[bipCase]{
	Kind: "bip340",
	Gen: func(t *rapid.T) bipCase {
		kk, d := genKey(t, "d")
		_, k := genKey(t, "k")
		aux := rapid.SampledFrom([]string{"zero", "ones", "rand"}).Draw(t, "auxKind")
		var a []byte
		switch aux {
		case "zero":
			a = make([]byte, 32)
		case "ones":
			a = bytes.Repeat([]byte{0xff}, 32)
		default:
			a = rapid.SliceOfN(rapid.Byte(), 32, 32).Draw(t, "aux")
		}
		p := rapid.SampledFrom(bipPerturbs).Draw(t, "perturb")
		if p == "key-31-forgery" {
			// steer towards keys whose x-coordinate starts with a zero byte (1 in 256 otherwise)
			d, kk = leadingZeroKeys[rapid.IntRange(0, len(leadingZeroKeys)-1).Draw(t, "lzKey")], "x<2^248"
		}
		return bipCase{KeyKind: kk, D: d, Aux: conv.Hex(a), Msg: conv.Hex(genMsg(t)), Perturb: p, Arg: rapid.IntRange(0, 1023).Draw(t, "arg"), K: k}
	},
	Class: func(c bipCase) (string, bool) {
		return c.KeyKind + "|" + lenClass(len(c.Msg)/2) + "|" + c.Perturb, c.Perturb != "none" || c.KeyKind != "rand" || len(c.Msg) != 64
	},
	Run: bipRun,
})

// secret keys d (small integers) whose public x-coordinate is below 2^248; found once at start-up
var leadingZeroKeys []string

func init() {
	g := curve.Secp256k1{}
	acc := g.NewPoint()
	base := g.NewBasePoint()
	for d := int64(1); d < 6000 && len(leadingZeroKeys) < 6; d++ {
		acc = acc.Add(base)
		if acc.(*curve.Secp256k1Point).XBytes()[0] == 0 {
			leadingZeroKeys = append(leadingZeroKeys, fmt.Sprintf("%064x", d))
		}
	}
	if len(leadingZeroKeys) == 0 {
		leadingZeroKeys = []string{fmt.Sprintf("%064x", 1)}
	}
}

func TestBIP340(t *testing.T) { bipProp.Check(t) }

// ---------- published vectors and reference self-tests (deterministic, shard 0 only)

func TestVectors(t *testing.T) {
	rec := ev.Get()
	if rec.Shard != 0 {
		t.Skip()
	}
	type vec struct{ sk, pk, aux, msg, sig string }
	vs := []vec{
		{"0000000000000000000000000000000000000000000000000000000000000003",
			"F9308A019258C31049344F85F89D5229B531C845836F99B08601F113BCE036F9",
			"0000000000000000000000000000000000000000000000000000000000000000",
			"0000000000000000000000000000000000000000000000000000000000000000",
			"E907831F80848D1069A5371B402410364BDF1C5F8307B0084C55F1CE2DCA821525F66A4A85EA8B71E482A74F382D2CE5EBEEE8FDB2172F477DF4900D310536C0"},
		{"B7E151628AED2A6ABF7158809CF4F3C762E7160F38B4DA56A784D9045190CFEF",
			"DFF1D77F2A671C5F36183726DB2341BE58FEAE1DA2DECED843240F7B502BA659",
			"0000000000000000000000000000000000000000000000000000000000000001",
			"243F6A8885A308D313198A2E03707344A4093822299F31D0082EFA98EC4E6C89",
			"6896BD60EEAE296DB48A229FF71DFE071BDE413E6D43F917DC8DCF8C78DE33418906D11AC976ABCCB20B091292BFF4EA897EFCB639EA871CFA95F6DE339E4B0A"},
	}
	for i, v := range vs {
		sk, pk, aux, msg, sig := conv.UnHex(v.sk), conv.UnHex(v.pk), conv.UnHex(v.aux), conv.UnHex(v.msg), conv.UnHex(v.sig)
		// the reference itself must reproduce the vector (guards the oracle)
		rs, _ := ref.BIP340Sign(new(big.Int).SetBytes(sk), msg, aux)
		if !bytes.Equal(rs, sig) || !bytes.Equal(ref.BIP340PubKey(new(big.Int).SetBytes(sk)), pk) || !ref.BIP340Verify(pk, msg, sig) {
			t.Fatalf("reference implementation does not reproduce BIP-340 vector %d", i)
		}
		got, err := taproot.SecretKey(sk).Sign(&oneShot{aux}, msg)
		c := map[string]string{"vector": fmt.Sprint(i)}
		rec.Case(fmt.Sprintf("bip340-vector|%d", i), true, c)
		if err != nil || !bytes.Equal(got, sig) {
			rec.Report(t, "bip340-vector", "bip340-vector-sign", fmt.Sprintf("vector %d: Sign returned %x", i, []byte(got)), c)
		}
		gpk, err := taproot.SecretKey(sk).Public()
		if err != nil || !bytes.Equal(gpk, pk) {
			rec.Report(t, "bip340-vector", "bip340-vector-public", fmt.Sprintf("vector %d: Public returned %x", i, []byte(gpk)), c)
		}
		if !taproot.PublicKey(pk).Verify(sig, msg) {
			rec.Report(t, "bip340-vector", "bip340-vector-verify", fmt.Sprintf("vector %d rejected", i), c)
		}
	}
	// reference curve arithmetic self-test: 2G, n*G, (n-1)G = -G
	twoGx := conv.BigHex("C6047F9441ED7D6D3045406E95C07CD85C778E4B8CEF3CA7ABAC09B95C709EE5")
	if ref.G.Add(ref.G).X.Cmp(twoGx) != 0 || !ref.G.Mul(new(big.Int).Sub(ref.N, one)).Equal(ref.G.Neg()) {
		t.Fatalf("reference curve arithmetic is wrong")
	}
}

func hexOf(b []byte) string { return conv.Hex(b) }
