// Package pbt is the glue between rapid, the evidence recorder and replay files: a property is a
// generator of JSON-serialisable cases plus a pure function from a case to an optional failure.
package pbt

import (
	"encoding/json"
	"os"
	"path/filepath"
	"sort"
	"strings"
	"testing"

	"github.com/taurusgroup/multi-party-sig/verifharness/ev"
	"pgregory.net/rapid"
)

// Fail describes an oracle failure. Sig is the stable classifier matched against known findings.
type Fail struct {
	Sig    string
	Detail string
}

func Failf(sig, detail string) *Fail { return &Fail{Sig: sig, Detail: detail} }

type Prop[C any] struct {
	Kind     string
	Gen      func(t *rapid.T) C
	Class    func(c C) (class string, nontrivial bool)
	Run      func(c C) *Fail
	Journal  bool // write every case to the crash journal before running it
	NoSample bool
}

var replayers = map[string]func(raw json.RawMessage) *Fail{}

// Define registers the property's replay entry.
func Define[C any](p Prop[C]) *Prop[C] {
	pp := &p
	replayers[p.Kind] = func(raw json.RawMessage) *Fail {
		var c C
		if err := json.Unmarshal(raw, &c); err != nil {
			return &Fail{Sig: "replay-decode", Detail: err.Error()}
		}
		return pp.exec(c)
	}
	return pp
}

func (p *Prop[C]) exec(c C) *Fail {
	var f *Fail
	panicked, msg := ev.Guard(func() { f = p.Run(c) })
	if panicked {
		return &Fail{Sig: "panic:" + ev.PanicSite(msg), Detail: msg}
	}
	if f != nil && !strings.HasPrefix(f.Sig, "inconclusive") &&
		(strings.Contains(f.Detail, "(definite=false)") || strings.Contains(f.Detail, "step timeout after")) {
		// a wall-clock watchdog of the simulator fired without a definite diagnosis (a busy machine is enough for that):
		// whatever a check makes of the resulting error, it is no observation about the property
		f = &Fail{Sig: "inconclusive:watchdog:" + f.Sig, Detail: f.Detail}
	}
	return f
}

// One runs a single case with recording; used directly by enumerations and by Check.
func (p *Prop[C]) One(t ev.Fataler, c C) {
	rec := ev.Get()
	if p.Journal {
		rec.Journal(p.Kind, c)
	}
	f := p.exec(c)
	class, nt := p.Class(c)
	var sample interface{}
	if !p.NoSample {
		sample = c
	}
	rec.Case(p.Kind+"|"+class, nt, sample)
	if f != nil {
		if strings.HasPrefix(f.Sig, "inconclusive") {
			// watchdog-style outcomes are never violations; the driver turns them into exit status 2
			rec.Count("inconclusive", 1)
			rec.Note("inconclusive:"+f.Sig, f.Detail)
			return
		}
		rec.Report(t, p.Kind, f.Sig, f.Detail, c)
	}
}

// Check drives the property with rapid.
func (p *Prop[C]) Check(t *testing.T) {
	rapid.Check(t, func(rt *rapid.T) {
		c := p.Gen(rt)
		p.One(rt, c)
	})
}

// Main is the TestMain body of every property package.
func Main(m *testing.M) {
	code := m.Run()
	ev.Get().Flush()
	os.Exit(code)
}

// Replay re-executes the case file named by VERIF_REPLAY without rapid.
func Replay(t *testing.T) {
	v, raw, ok := ev.ReplayFile()
	if !ok {
		t.Skip("no VERIF_REPLAY")
	}
	f, ok := replayers[v.Kind]
	if !ok {
		t.Fatalf("no replay entry for kind %q", v.Kind)
	}
	if fail := f(raw); fail != nil {
		if ev.Get().IsKnown(fail.Sig) {
			t.Logf("known finding reproduced: [%s] %s", fail.Sig, fail.Detail)
			return
		}
		t.Fatalf("VIOLATION reproduced [%s]: %s", fail.Sig, fail.Detail)
	}
	t.Logf("case passed")
}

// Corpus replays every saved case of /verif/corpus/<property>/ (regressions of fixed findings and
// other interesting inputs) through the plain replay entries; it runs first in every tier.
func Corpus(t *testing.T) {
	rec := ev.Get()
	if rec.Shard != 0 {
		t.Skip()
	}
	dir := filepath.Join(os.Getenv("VERIF_ROOT"), "corpus", rec.Prop)
	files, _ := filepath.Glob(filepath.Join(dir, "*.json"))
	sort.Strings(files)
	for _, fn := range files {
		data, err := os.ReadFile(fn)
		if err != nil {
			continue
		}
		var tmp struct {
			Kind string          `json:"kind"`
			Case json.RawMessage `json:"case"`
		}
		if err := json.Unmarshal(data, &tmp); err != nil {
			t.Fatalf("corpus file %s: %v", fn, err)
		}
		f, ok := replayers[tmp.Kind]
		if !ok {
			t.Fatalf("corpus file %s: no replay entry for kind %q", fn, tmp.Kind)
		}
		fail := f(tmp.Case)
		rec.Case("corpus|"+tmp.Kind+"|"+filepath.Base(fn), true, nil)
		rec.Count("corpus_cases", 1)
		if fail != nil {
			var c interface{}
			_ = json.Unmarshal(tmp.Case, &c)
			rec.Report(t, tmp.Kind, fail.Sig, "corpus case "+filepath.Base(fn)+": "+fail.Detail, c)
		}
	}
}
