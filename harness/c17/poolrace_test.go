package c17

import (
	"fmt"
	"testing"

	"github.com/taurusgroup/multi-party-sig/pkg/party"
	"github.com/taurusgroup/multi-party-sig/pkg/pool"
	"github.com/taurusgroup/multi-party-sig/pkg/protocol"
	"github.com/taurusgroup/multi-party-sig/verifharness/ev"
	"github.com/taurusgroup/multi-party-sig/verifharness/fix"
	"github.com/taurusgroup/multi-party-sig/verifharness/pbt"
	"github.com/taurusgroup/multi-party-sig/verifharness/proto"
)

// Data races INSIDE one call: with a worker pool the CMP rounds compute their proofs on several goroutines during a
// single Accept. Every other check runs the library without a pool (the deterministic tapes need one goroutine), so
// this race-detector run (thorough tier) is the only place where those goroutines exist. Handlers are driven in order
// by one goroutine; the oracle is the race detector (plus: the session completes with a valid signature).

type poolCase struct {
	Proto   string
	N       int
	Workers int
}

func poolRun(c poolCase) *pbt.Fail {
	ids := fix.IDs("letters", c.N, 0)
	m, err := proto.Deal(proto.SchemeCMP, 77, ids, c.N-1)
	if err != nil {
		return pbt.Failf("setup", err.Error())
	}
	msg := []byte("c17: a message hash of 32 bytes!")
	sess := m.SignSession(c.Proto, m.IDs, msg, []byte("c17-pool"))
	pl := pool.NewPool(c.Workers)
	defer pl.TearDown()
	sess.Pool = pl
	hs := map[party.ID]protocol.Handler{}
	for _, id := range sess.Order() {
		h, err := sess.Handler(id)
		if err != nil {
			return pbt.Failf("setup", err.Error())
		}
		hs[id] = h
	}
	// in-order delivery: drain every handler's outgoing channel, hand the messages to the others
	var queue []*protocol.Message
	for progress := true; progress; {
		progress = false
		for _, id := range sess.Order() {
			ch := hs[id].Listen()
		drain:
			for {
				select {
				case mm, ok := <-ch:
					if !ok {
						break drain
					}
					queue = append(queue, mm)
					progress = true
				default:
					break drain
				}
			}
		}
		for len(queue) > 0 {
			mm := queue[0]
			queue = queue[1:]
			for _, id := range sess.Order() {
				if mm.IsFor(id) && hs[id].CanAccept(mm) {
					hs[id].Accept(mm)
					progress = true
				}
			}
		}
	}
	for _, id := range sess.Order() {
		r, err := hs[id].Result()
		if err != nil {
			return pbt.Failf("pool-session-incomplete:"+c.Proto, fmt.Sprintf("party %q with a %d-worker pool: %v", id, c.Workers, err))
		}
		if err := proto.CheckSignature(c.Proto, r, m.Pub, msg); err != nil {
			return pbt.Failf("pool-session-invalid:"+c.Proto, fmt.Sprintf("party %q: %v", id, err))
		}
	}
	return nil
}

var poolProp = pbt.Define(pbt.Prop[poolCase]{Kind: "pool-race", Run: poolRun, Journal: true, Class: func(c poolCase) (string, bool) {
	return fmt.Sprintf("pool|%s|n=%d|workers=%d", c.Proto, c.N, c.Workers), true
}})

func TestPoolRace(t *testing.T) {
	for i, p := range []string{proto.CMPSign, proto.CMPPresignFull} {
		if ev.Get().Mine(i + 1) {
			poolProp.One(t, poolCase{Proto: p, N: 3, Workers: 4})
		}
	}
}
