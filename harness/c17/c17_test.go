package c17

import (
	"bytes"
	"fmt"
	"strings"
	"sync"
	"testing"
	"time"

	"github.com/taurusgroup/multi-party-sig/pkg/party"
	"github.com/taurusgroup/multi-party-sig/pkg/protocol"
	"github.com/taurusgroup/multi-party-sig/verifharness/ev"
	"github.com/taurusgroup/multi-party-sig/verifharness/fix"
	"github.com/taurusgroup/multi-party-sig/verifharness/pbt"
	"github.com/taurusgroup/multi-party-sig/verifharness/proto"
	"github.com/taurusgroup/multi-party-sig/verifharness/sim"
	"github.com/taurusgroup/multi-party-sig/verifharness/tape"
	"pgregory.net/rapid"
)

func TestMain(m *testing.M)   { pbt.Main(m) }
func TestReplay(t *testing.T) { pbt.Replay(t) }
func TestCorpus(t *testing.T) { pbt.Corpus(t) }

// scenario: one handler under test (party "a"); its peers are replaced by the traffic they sent in an
// honest in-order run with the same per-party randomness (so that the traffic is valid for the handler).
type scenario struct {
	Proto   string
	Pattern string
	N       int
	Seed    uint64
}

func (s scenario) session() (*proto.Session, error) {
	ids := fix.IDs("letters", s.N, 0)
	switch s.Proto {
	case proto.Toy:
		return &proto.Session{Proto: proto.Toy, Pattern: s.Pattern, SessionID: []byte("c17"), IDs: fix.SortedIDs(ids)}, nil
	case proto.XOR:
		return &proto.Session{Proto: proto.XOR, SessionID: []byte("c17"), IDs: fix.SortedIDs(ids)}, nil
	case proto.FrostKeygen:
		return &proto.Session{Proto: proto.FrostKeygen, SessionID: []byte("c17"), IDs: fix.SortedIDs(ids), T: s.N - 1}, nil
	case proto.FrostSign:
		m, err := proto.Deal(proto.SchemeFrost, 5, ids, s.N-1)
		if err != nil {
			return nil, err
		}
		return m.SignSession(proto.FrostSign, m.IDs, []byte("c17"), []byte("c17")), nil
	case proto.DoernerKeygen:
		return &proto.Session{Proto: proto.DoernerKeygen, SessionID: []byte("c17"), IDs: ids[:2], T: 1}, nil
	case proto.DoernerSign:
		m, err := doernerKey()
		if err != nil {
			return nil, err
		}
		return m.SignSession(proto.DoernerSign, m.IDs, []byte("c17"), []byte("c17")), nil
	}
	return nil, fmt.Errorf("unknown protocol")
}

var dk *proto.Material

func doernerKey() (*proto.Material, error) {
	if dk != nil {
		return dk.Clone(), nil
	}
	m, err := proto.Keygen(proto.SchemeDoerner, 77, fix.IDs("letters", 2, 0), 1, sim.FIFO)
	if err == nil {
		dk = m
	}
	return m.Clone(), err
}

type recorded struct {
	inbox  []*sim.Msg // what party under test receives in an in-order run, in order
	result []byte
	self   party.ID
}

// record runs the honest session once and extracts the traffic addressed to the party under test.
var recCache = map[string]*recorded{}

func (s scenario) record(who int) (*recorded, error) {
	key := fmt.Sprintf("%v/%d", s, who)
	if r, ok := recCache[key]; ok {
		return r, nil
	}
	r, err := s.recordOnce(who)
	if err == nil {
		recCache[key] = r
	}
	return r, err
}

func (s scenario) recordOnce(who int) (*recorded, error) {
	sess, err := s.session()
	if err != nil {
		return nil, err
	}
	mux := tape.Install(s.Seed)
	defer mux.Uninstall()
	n, err := sess.Run(mux, sim.FIFO)
	if err != nil {
		return nil, err
	}
	p := n.Parties[who%len(n.Parties)]
	r := &recorded{self: p.ID}
	for _, e := range p.Log {
		if e.Accepted {
			r.inbox = append(r.inbox, sim.Clone(e.M))
		}
	}
	o := p.Outcome()
	if !o.Finished {
		return nil, fmt.Errorf("baseline did not finish: %v", o.Err)
	}
	r.result, err = proto.ResultBytes(o.Value)
	return r, err
}

// ---- (a) sequential, model-based

type Op struct {
	Kind string // next, dup, garbage, abort-notice, stop, result, drain, canaccept-nil, accept-nil, foreign
	Arg  int
}

type seqCase struct {
	S   scenario
	Who int
	Ops []Op
}

type observer struct {
	h        protocol.Handler
	ch       <-chan *protocol.Message
	closed   bool
	ended    bool
	endVal   []byte
	endErr   string
	received int
}

func (o *observer) drain() {
	for !o.closed {
		select {
		case m, ok := <-o.ch:
			if !ok {
				o.closed = true
				return
			}
			_ = m
			o.received++
		default:
			return
		}
	}
}

// call runs a handler call while draining concurrently (the statement only promises progress while drained).
func (o *observer) call(f func()) (panicMsg string, hung bool) {
	done := make(chan string, 1)
	go func() {
		p, msg := ev.Guard(f)
		if p {
			done <- msg
		} else {
			done <- ""
		}
	}()
	timer := time.NewTimer(60 * time.Second)
	defer timer.Stop()
	for {
		select {
		case msg := <-done:
			o.drain()
			return msg, false
		case m, ok := <-o.ch:
			if !ok {
				o.closed = true
				o.ch = nil
			} else if m != nil {
				o.received++
			}
		case <-timer.C:
			return "", true
		}
	}
}

// check evaluates the life-cycle invariants after a step.
func (o *observer) check(step string) *pbt.Fail {
	var v interface{}
	var err error
	if p, hung := o.call(func() { v, err = o.h.Result() }); p != "" || hung {
		if hung {
			return pbt.Failf("inconclusive:hang", "Result() after "+step+" did not return within 60 s")
		}
		return pbt.Failf("panic:Result", fmt.Sprintf("Result() after %s: %s", step, p))
	}
	if v != nil && err != nil {
		return pbt.Failf("result-both", fmt.Sprintf("after %s Result() returns both a value and an error", step))
	}
	notFinished := v == nil && err != nil && err.Error() == "protocol: not finished"
	ended := !notFinished && (v != nil || err != nil)
	if v == nil && err == nil {
		return pbt.Failf("result-neither", fmt.Sprintf("after %s Result() returns neither a value nor an error", step))
	}
	o.drain()
	if o.closed && !ended {
		return pbt.Failf("closed-but-not-finished", fmt.Sprintf("after %s the outgoing channel is closed but Result() says %v", step, err))
	}
	if ended && !o.closed {
		// closing happens in the same critical section as setting the result: after a drain it must be visible
		o.drain()
		if !o.closed {
			return pbt.Failf("ended-but-channel-open", fmt.Sprintf("after %s Result() reports the end (%v) but the outgoing channel is still open", step, err))
		}
	}
	var vb []byte
	es := ""
	if v != nil {
		vb, _ = proto.ResultBytes(v)
	}
	if err != nil {
		es = err.Error()
	}
	if o.ended {
		if !ended {
			return pbt.Failf("result-unfinished-after-end", fmt.Sprintf("after %s Result() went back to 'not finished'", step))
		}
		if !bytes.Equal(vb, o.endVal) || es != o.endErr {
			return pbt.Failf("result-changed-after-end", fmt.Sprintf("after %s Result() changed from (%x,%q) to (%x,%q)", step, trunc(o.endVal), o.endErr, trunc(vb), es))
		}
	} else if ended {
		o.ended, o.endVal, o.endErr = true, vb, es
	}
	return nil
}

func trunc(b []byte) []byte {
	if len(b) > 16 {
		return b[:16]
	}
	return b
}

var lastShape string

func seqRun(c seqCase) *pbt.Fail {
	lastShape = ""
	rec, err := c.S.record(c.Who)
	if err != nil {
		return pbt.Failf("setup", err.Error())
	}
	sess, _ := c.S.session()
	mux := tape.Install(c.S.Seed)
	defer mux.Uninstall()
	mux.Use(string(rec.self))
	var h protocol.Handler
	if p, msg := ev.Guard(func() { h, err = sess.Handler(rec.self) }); p {
		return pbt.Failf("panic:construct", msg)
	}
	if err != nil {
		return pbt.Failf("setup", err.Error())
	}
	o := &observer{h: h, ch: h.Listen()}
	next := 0
	abortInduced, stopped := false, false
	peer := sess.IDs[0]
	if peer == rec.self {
		peer = sess.IDs[1]
	}
	shape := []string{}
	for i, op := range c.Ops {
		step := fmt.Sprintf("step %d (%s)", i, op.Kind)
		wasEnded := o.ended
		recvBefore := o.received
		var pmsg string
		var hung bool
		switch op.Kind {
		case "next":
			if next >= len(rec.inbox) {
				continue
			}
			m := sim.Clone(rec.inbox[next])
			next++
			pmsg, hung = o.call(func() { h.Accept(m) })
		case "dup":
			if next == 0 {
				continue
			}
			m := sim.Clone(rec.inbox[op.Arg%next])
			pmsg, hung = o.call(func() { h.Accept(m) })
		case "foreign":
			m := sim.Clone(rec.inbox[op.Arg%len(rec.inbox)])
			switch op.Arg % 4 {
			case 0:
				m.SSID = append([]byte{1}, m.SSID...)
			case 1:
				m.Protocol += "x"
			case 2:
				m.From = "nobody"
			default:
				m.RoundNumber = 200
			}
			pmsg, hung = o.call(func() { h.Accept(m) })
		case "garbage":
			// acceptable header, undecodable content, for the next expected message
			if next >= len(rec.inbox) {
				continue
			}
			m := sim.Clone(rec.inbox[next])
			m.Data = []byte{0xff, 0x00, byte(op.Arg)}
			abortInduced = true
			pmsg, hung = o.call(func() { h.Accept(m) })
		case "abort-notice":
			m := &protocol.Message{SSID: rec.inbox[0].SSID, From: peer, Protocol: rec.inbox[0].Protocol, Data: []byte("peer gave up")}
			abortInduced = true
			pmsg, hung = o.call(func() { h.Accept(m) })
		case "stop":
			stopped = true
			pmsg, hung = o.call(func() { h.Stop() })
		case "result":
			// covered by check below
		case "drain":
			o.drain()
		case "canaccept-nil":
			var ok bool
			pmsg, hung = o.call(func() { ok = h.CanAccept(nil) })
			if ok {
				return pbt.Failf("canaccept-nil-true", "CanAccept(nil) returned true")
			}
		case "accept-nil":
			pmsg, hung = o.call(func() { h.Accept(nil) })
		}
		shape = append(shape, op.Kind)
		if hung {
			return pbt.Failf("inconclusive:hang", step+" did not return within 60 s while the channel was being drained")
		}
		if pmsg != "" {
			sig := "panic:" + op.Kind
			if wasEnded {
				sig += ":after-end"
			}
			return pbt.Failf(sig, fmt.Sprintf("%s panics (session ended before: %v):\n%s", step, wasEnded, pmsg))
		}
		if f := o.check(step); f != nil {
			return f
		}
		if wasEnded && o.received != recvBefore {
			return pbt.Failf("message-after-end", fmt.Sprintf("%s made an ended handler emit another message", step))
		}
		if op.Kind == "stop" && !wasEnded {
			if !o.ended || o.endErr == "" {
				return pbt.Failf("stop-does-not-end-session", fmt.Sprintf("Stop() on a running session did not end it with an error (ended=%v err=%q)", o.ended, o.endErr))
			}
		}
		if op.Kind == "abort-notice" && !wasEnded && (!o.ended || o.endErr == "") {
			return pbt.Failf("abort-notice-ignored", "a peer's abort notice did not end the running session with an error")
		}
	}
	lastShape = summarize(shape, o.ended)
	// completion: with all valid traffic delivered and nothing abort-inducing, the session must be done with the in-order result
	if next == len(rec.inbox) && !abortInduced && !stopped {
		if !o.ended || o.endErr != "" {
			return pbt.Failf("does-not-complete", fmt.Sprintf("all valid messages were delivered in order but the session is not done (ended=%v err=%q)", o.ended, o.endErr))
		}
		if !bytes.Equal(o.endVal, rec.result) {
			return pbt.Failf("wrong-result", "the result differs from the in-order run")
		}
	}
	return nil
}

func summarize(ops []string, ended bool) string {
	set := map[string]bool{}
	afterEnd := false
	for _, o := range ops {
		set[o] = true
	}
	_ = afterEnd
	var ks []string
	for _, k := range []string{"next", "dup", "foreign", "garbage", "abort-notice", "stop", "drain", "canaccept-nil", "accept-nil"} {
		if set[k] {
			ks = append(ks, k)
		}
	}
	return fmt.Sprintf("%s|ended=%v", strings.Join(ks, "+"), ended)
}

var seqProp = pbt.Define(pbt.Prop[seqCase]{Kind: "lifecycle-seq", Run: seqRun, Journal: true, Class: func(c seqCase) (string, bool) {
	return fmt.Sprintf("seq|%s%s|n=%d|%s", c.S.Proto, c.S.Pattern, c.S.N, lastShape), strings.Contains(lastShape, "stop") || strings.Contains(lastShape, "abort") || strings.Contains(lastShape, "garbage")
}})

var scenarios = []scenario{
	{Proto: proto.Toy, Pattern: "b", N: 2}, {Proto: proto.Toy, Pattern: "xp", N: 3}, {Proto: proto.Toy, Pattern: "bxb", N: 3}, {Proto: proto.XOR, N: 3},
	{Proto: proto.FrostKeygen, N: 3}, {Proto: proto.FrostSign, N: 2}, {Proto: proto.DoernerKeygen, N: 2}, {Proto: proto.DoernerSign, N: 2},
}

func genOps(t *rapid.T, max int) []Op {
	n := rapid.IntRange(1, max).Draw(t, "nops")
	ops := make([]Op, n)
	kinds := []string{"next", "next", "next", "next", "dup", "foreign", "garbage", "abort-notice", "stop", "result", "drain", "canaccept-nil", "accept-nil"}
	for i := range ops {
		ops[i] = Op{Kind: rapid.SampledFrom(kinds).Draw(t, "op"), Arg: rapid.IntRange(0, 255).Draw(t, "arg")}
	}
	return ops
}

func TestSequential(t *testing.T) {
	rapid.Check(t, func(rt *rapid.T) {
		s := rapid.SampledFrom(scenarios).Draw(rt, "scenario")
		s.Seed = rapid.Uint64Range(1, 4).Draw(rt, "seed")
		seqProp.One(rt, seqCase{S: s, Who: rapid.IntRange(0, 2).Draw(rt, "who"), Ops: genOps(rt, 24)})
	})
}

// ---- (b) concurrent programs (run with the race detector)

type conCase struct {
	S       scenario
	Who     int
	Threads [][]Op // each goroutine's program; "next" ops share one cursor over the recorded inbox
}

func conRun(c conCase) *pbt.Fail {
	rec, err := c.S.record(c.Who)
	if err != nil {
		return pbt.Failf("setup", err.Error())
	}
	sess, _ := c.S.session()
	mux := tape.Install(c.S.Seed)
	defer mux.Uninstall()
	mux.Use(string(rec.self))
	h, err := sess.Handler(rec.self)
	if err != nil {
		return pbt.Failf("setup", err.Error())
	}
	var mu sync.Mutex
	next := 0
	stopped, aborting := false, false
	var wg sync.WaitGroup
	panics := make(chan string, 64)
	stopDrain := make(chan struct{})
	drained := make(chan struct{})
	ch := h.Listen() // taken before any call is in flight: Listen needs the handler lock, which a blocked Accept holds
	go func() {
		defer close(drained)
		for {
			select {
			case _, ok := <-ch:
				if !ok {
					return
				}
			case <-stopDrain:
				return
			}
		}
	}()
	peer := sess.IDs[0]
	if peer == rec.self {
		peer = sess.IDs[1]
	}
	for _, prog := range c.Threads {
		wg.Add(1)
		go func(prog []Op) {
			defer wg.Done()
			for _, op := range prog {
				p, msg := ev.Guard(func() {
					switch op.Kind {
					case "next":
						// deliveries keep the recorded order: the cursor and the call are one critical section of the harness
						mu.Lock()
						if next < len(rec.inbox) {
							m := sim.Clone(rec.inbox[next])
							next++
							mu.Unlock()
							h.Accept(m)
						} else {
							mu.Unlock()
						}
					case "dup":
						h.Accept(sim.Clone(rec.inbox[op.Arg%len(rec.inbox)]))
					case "canaccept":
						_ = h.CanAccept(sim.Clone(rec.inbox[op.Arg%len(rec.inbox)]))
					case "result":
						_, _ = h.Result()
					case "listen":
						_ = h.Listen()
					case "stop":
						mu.Lock()
						stopped = true
						mu.Unlock()
						h.Stop()
					case "abort-notice":
						mu.Lock()
						aborting = true
						mu.Unlock()
						h.Accept(&protocol.Message{SSID: rec.inbox[0].SSID, From: peer, Protocol: rec.inbox[0].Protocol, Data: []byte("peer gave up")})
					}
				})
				if p {
					panics <- op.Kind + ": " + msg
				}
			}
		}(prog)
	}
	joined := make(chan struct{})
	go func() { wg.Wait(); close(joined) }()
	select {
	case <-joined:
	case <-time.After(90 * time.Second):
		close(stopDrain)
		return pbt.Failf("inconclusive:not-joined", "goroutines did not finish within 90 s")
	}
	select {
	case p := <-panics:
		close(stopDrain)
		return pbt.Failf("panic:concurrent:"+strings.SplitN(p, ":", 2)[0], p)
	default:
	}
	v, rerr := h.Result()
	ended := !(v == nil && rerr != nil && rerr.Error() == "protocol: not finished")
	if ended {
		select {
		case <-drained:
		case <-time.After(180 * time.Second):
			close(stopDrain)
			return pbt.Failf("ended-but-channel-open", "Result() reports the end but the outgoing channel was not closed")
		}
	} else {
		close(stopDrain)
		<-drained
	}
	if v != nil && rerr != nil {
		return pbt.Failf("result-both", "Result() returns both a value and an error")
	}
	if v != nil && rerr == nil {
		// a session that completes does so with the result of the in-order run, however the calls that delivered its
		// messages overlapped (all randomness of the party comes from its tape, in round order, under the handler lock)
		if b, err := proto.ResultBytes(v); err == nil && !bytes.Equal(b, rec.result) {
			return pbt.Failf("wrong-result:concurrent", "the session completed under concurrent delivery with a result that differs from the in-order run")
		}
	}
	if stopped && !ended {
		return pbt.Failf("stop-does-not-end-session", "Stop() was called but the session is still running")
	}
	if aborting && !ended {
		return pbt.Failf("abort-notice-ignored", "an abort notice was delivered but the session is still running")
	}
	return nil
}

var conProp = pbt.Define(pbt.Prop[conCase]{Kind: "lifecycle-concurrent", Run: conRun, Journal: true, Class: func(c conCase) (string, bool) {
	set := map[string]int{}
	accepts := 0
	for _, th := range c.Threads {
		has := false
		for _, o := range th {
			set[o.Kind]++
			if o.Kind == "next" || o.Kind == "dup" {
				has = true
			}
		}
		if has {
			accepts++
		}
	}
	var ks []string
	for _, k := range []string{"canaccept", "result", "listen", "stop", "abort-notice"} {
		if set[k] > 0 {
			ks = append(ks, k)
		}
	}
	return fmt.Sprintf("con|%s%s|threads=%d|accepting=%d|%s", c.S.Proto, c.S.Pattern, len(c.Threads), accepts, strings.Join(ks, "+")),
		accepts >= 2 && (set["canaccept"]+set["stop"]+set["result"] > 0) || set["stop"] > 0
}})

func TestConcurrent(t *testing.T) {
	rapid.Check(t, func(rt *rapid.T) {
		s := rapid.SampledFrom(scenarios).Draw(rt, "scenario")
		s.Seed = rapid.Uint64Range(1, 4).Draw(rt, "seed")
		c := conCase{S: s, Who: rapid.IntRange(0, 2).Draw(rt, "who")}
		nt := rapid.IntRange(2, 6).Draw(rt, "threads")
		kinds := []string{"next", "next", "next", "dup", "canaccept", "canaccept", "result", "listen", "stop", "abort-notice"}
		for i := 0; i < nt; i++ {
			n := rapid.IntRange(1, 10).Draw(rt, "len")
			var prog []Op
			for j := 0; j < n; j++ {
				k := rapid.SampledFrom(kinds).Draw(rt, "op")
				if (k == "stop" || k == "abort-notice") && rapid.IntRange(0, 3).Draw(rt, "rare") != 0 {
					k = "next"
				}
				prog = append(prog, Op{Kind: k, Arg: rapid.IntRange(0, 255).Draw(rt, "arg")})
			}
			c.Threads = append(c.Threads, prog)
		}
		conProp.One(rt, c)
	})
}
