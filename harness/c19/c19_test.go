package c19

import (
	"bytes"
	"encoding/hex"
	"fmt"
	"math/big"
	"strings"
	"testing"

	"github.com/cronokirby/saferith"
	"github.com/taurusgroup/multi-party-sig/internal/round"
	"github.com/taurusgroup/multi-party-sig/internal/types"
	"github.com/taurusgroup/multi-party-sig/pkg/hash"
	"github.com/taurusgroup/multi-party-sig/pkg/math/curve"
	"github.com/taurusgroup/multi-party-sig/pkg/math/polynomial"
	"github.com/taurusgroup/multi-party-sig/pkg/paillier"
	"github.com/taurusgroup/multi-party-sig/pkg/party"
	"github.com/taurusgroup/multi-party-sig/verifharness/conv"
	"github.com/taurusgroup/multi-party-sig/verifharness/pbt"
	"github.com/taurusgroup/multi-party-sig/verifharness/ref"
	"github.com/taurusgroup/multi-party-sig/verifharness/tape"
	"pgregory.net/rapid"
)

func TestMain(m *testing.M)   { pbt.Main(m) }
func TestReplay(t *testing.T) { pbt.Replay(t) }
func TestCorpus(t *testing.T) { pbt.Corpus(t) }

// Item is one typed value fed to the transcript. Its semantic identity is (T, D, V, L).
type Item struct {
	T string   // type tag
	D string   // domain (bwd only)
	V string   // hex payload (bytes-like types), decimal for numbers
	L []string // list payload (ids, exponent coefficients as hex scalars)
	F bool     // flag (exponent: constant term is zero)
}

func (it Item) key() string {
	return fmt.Sprintf("%s|%q|%s|%q|%v", it.T, it.D, it.V, it.L, it.F)
}

func unhex(s string) []byte { b, _ := hex.DecodeString(s); return b }

// build turns an item into the Go value handed to WriteAny.
func build(it Item) interface{} {
	g := curve.Secp256k1{}
	switch it.T {
	case "bytes":
		return unhex(it.V)
	case "bwd":
		return &hash.BytesWithDomain{TheDomain: it.D, Bytes: unhex(it.V)}
	case "rid":
		return types.RID(unhex(it.V))
	case "commitment":
		return hash.Commitment(unhex(it.V))
	case "decommitment":
		return hash.Decommitment(unhex(it.V))
	case "sigmsg":
		return types.SigningMessage(unhex(it.V))
	case "sigmsg-nil":
		return types.SigningMessage(nil)
	case "id":
		return party.ID(unhex(it.V))
	case "ids":
		ids := make([]party.ID, len(it.L))
		for i, s := range it.L {
			ids[i] = party.ID(unhex(s))
		}
		return party.IDSlice(ids)
	case "bigint":
		x, _ := new(big.Int).SetString(it.V, 10)
		return x
	case "nat":
		x, _ := new(big.Int).SetString(it.V, 10)
		return new(saferith.Nat).SetBig(x, x.BitLen())
	case "int":
		x, _ := new(big.Int).SetString(it.V, 10)
		return new(saferith.Int).SetBig(x, x.BitLen())
	case "modulus":
		x, _ := new(big.Int).SetString(it.V, 10)
		return saferith.ModulusFromNat(new(saferith.Nat).SetBig(x, x.BitLen()))
	case "scalar":
		x, _ := new(big.Int).SetString(it.V, 10)
		return conv.Scalar(x)
	case "point":
		x, _ := new(big.Int).SetString(it.V, 10)
		return conv.Point(ref.BaseMul(x))
	case "ciphertext":
		x, _ := new(big.Int).SetString(it.V, 10)
		ct := &paillier.Ciphertext{}
		conv.Poke(ct, "c", new(saferith.Nat).SetBig(x, 4096))
		return ct
	case "roundnumber":
		x, _ := new(big.Int).SetString(it.V, 10)
		return round.Number(x.Int64())
	case "threshold":
		x, _ := new(big.Int).SetString(it.V, 10)
		return types.ThresholdWrapper(x.Int64())
	case "exponent":
		coefs := make([]curve.Scalar, 0, len(it.L)+1)
		if it.F {
			coefs = append(coefs, g.NewScalar())
		}
		for _, s := range it.L {
			x, _ := new(big.Int).SetString(s, 10)
			coefs = append(coefs, conv.Scalar(x))
		}
		// NewPolynomial samples the higher coefficients: build the polynomial through its exported constructor
		// with the constant, then overwrite the coefficients by evaluation-free construction via Peek/Poke
		p := polynomial.NewPolynomial(g, len(coefs)-1, coefs[0])
		conv.Poke(p, "coefficients", coefs)
		return polynomial.NewPolynomialExponent(p)
	}
	// values the transcript refuses (only ever used in the tuple an opener CLAIMS, never committed to)
	switch it.T {
	case "nil-point":
		var p curve.Point
		return p
	case "nil-scalar":
		var x curve.Scalar
		return x
	case "nil-nat":
		return (*saferith.Nat)(nil)
	case "nil-bytes":
		return []byte(nil)
	case "unsupported-int":
		return 7
	case "unsupported-string":
		return "seven"
	}
	panic("unknown item type " + it.T)
}

var unhashable = []string{"nil-point", "nil-scalar", "nil-nat", "nil-bytes", "unsupported-int", "unsupported-string"}

func digest(items []Item) ([]byte, error) {
	h := hash.New()
	for _, it := range items {
		if err := h.WriteAny(build(it)); err != nil {
			return nil, err
		}
	}
	return h.Sum(), nil
}

func keys(items []Item) string {
	var b strings.Builder
	for _, it := range items {
		b.WriteString(it.key())
		b.WriteString("\n")
	}
	return b.String()
}

type Case struct {
	Kind string
	A, B []Item
}

func rawConcat(items []Item) string {
	var b strings.Builder
	for _, it := range items {
		b.WriteString(it.D)
		b.WriteString("/")
		b.WriteString(it.V)
		b.WriteString(strings.Join(it.L, ""))
	}
	return strings.ReplaceAll(b.String(), "/", "")
}

func run(c Case) *pbt.Fail {
	defer tape.Install(1).Uninstall() // exponent construction samples coefficients
	da, ea := digest(c.A)
	db, eb := digest(c.B)
	if ea != nil || eb != nil {
		// an item the transcript refuses (nil/empty) is not hashed at all; both directions are vacuous
		if (ea == nil) != (eb == nil) {
			return nil
		}
		return nil
	}
	same := keys(c.A) == keys(c.B)
	if same && !bytes.Equal(da, db) {
		return pbt.Failf("equal-sequences-different-digest:"+c.Kind, "the same sequence hashed twice gives different digests")
	}
	if !same && bytes.Equal(da, db) {
		return pbt.Failf("collision:"+c.Kind, fmt.Sprintf("different sequences, same digest %x\nA=%s\nB=%s", da[:16], keys(c.A), keys(c.B)))
	}
	if len(da) != 64 {
		return pbt.Failf("digest-length", fmt.Sprintf("digest has %d bytes", len(da)))
	}
	return nil
}

var prop = pbt.Define(pbt.Prop[Case]{Kind: "transcript-pair", Run: run, Class: func(c Case) (string, bool) {
	ts := map[string]bool{}
	for _, it := range append(append([]Item{}, c.A...), c.B...) {
		ts[it.T] = true
	}
	var names []string
	for _, t := range []string{"bytes", "bwd", "rid", "commitment", "decommitment", "sigmsg", "sigmsg-nil", "id", "ids", "bigint", "nat", "int", "modulus", "scalar", "point", "roundnumber", "threshold", "exponent"} {
		if ts[t] {
			names = append(names, t)
		}
	}
	framingOnly := keys(c.A) != keys(c.B) && rawConcat(c.A) == rawConcat(c.B)
	return fmt.Sprintf("%s|%s|framing-only=%v", c.Kind, strings.Join(names, "+"), framingOnly), framingOnly || c.Kind != "independent"
}})

// ---- generators

func genBytes(t *rapid.T, label string, min, max int) string {
	return hex.EncodeToString(rapid.SliceOfN(rapid.Byte(), min, max).Draw(t, label))
}

var byteTypes = []string{"bytes", "rid", "commitment", "decommitment", "sigmsg", "id"}

// genBig draws a non-negative integer of up to the given number of bits as a decimal string.
func genBig(t *rapid.T, label string, bits int) string {
	b := rapid.SliceOfN(rapid.Byte(), bits/8, bits/8).Draw(t, label)
	return new(big.Int).SetBytes(b).String()
}

func genItem(t *rapid.T) Item {
	switch rapid.IntRange(0, 14).Draw(t, "itemType") {
	case 14:
		return Item{T: "ciphertext", V: genBig(t, "ct", 4090)}
	case 0, 1:
		return Item{T: rapid.SampledFrom(byteTypes).Draw(t, "byteType"), V: genBytes(t, "v", 1, 40)}
	case 2:
		return Item{T: "bwd", D: "x-" + rapid.StringMatching("[a-z()]{0,6}").Draw(t, "dom"), V: genBytes(t, "v", 0, 40)}
	case 3:
		n := rapid.IntRange(1, 5).Draw(t, "nids")
		seen := map[string]bool{}
		var l []string
		for len(l) < n {
			s := genBytes(t, "id", 1, 4)
			if !seen[s] {
				seen[s] = true
				l = append(l, s)
			}
		}
		return Item{T: "ids", L: l}
	case 4:
		return Item{T: "bigint", V: fmt.Sprint(rapid.Int64().Draw(t, "big"))}
	case 5:
		return Item{T: "nat", V: fmt.Sprint(rapid.Uint64().Draw(t, "nat"))}
	case 6:
		return Item{T: "int", V: fmt.Sprint(rapid.Int64Range(-1<<62, 1<<62).Draw(t, "int"))}
	case 7:
		return Item{T: "modulus", V: fmt.Sprint(rapid.Uint64Range(3, 1<<63).Draw(t, "mod") | 1)}
	case 8:
		return Item{T: "scalar", V: fmt.Sprint(rapid.Uint64().Draw(t, "scalar"))}
	case 9:
		return Item{T: "point", V: fmt.Sprint(rapid.Uint64Range(1, 1<<62).Draw(t, "point"))}
	case 10:
		return Item{T: "roundnumber", V: fmt.Sprint(rapid.IntRange(0, 65535).Draw(t, "rn"))}
	case 11:
		return Item{T: "threshold", V: fmt.Sprint(rapid.Uint32().Draw(t, "th"))}
	case 12:
		n := rapid.IntRange(1, 4).Draw(t, "ncoef")
		var l []string
		for i := 0; i < n; i++ {
			l = append(l, fmt.Sprint(rapid.Uint64Range(1, 1<<62).Draw(t, "coef")))
		}
		return Item{T: "exponent", L: l, F: rapid.Bool().Draw(t, "zeroConst")}
	default:
		return Item{T: "sigmsg-nil"}
	}
}

func genSeq(t *rapid.T, min, max int) []Item {
	n := rapid.IntRange(min, max).Draw(t, "len")
	out := make([]Item, n)
	for i := range out {
		out[i] = genItem(t)
	}
	return out
}

func clone(a []Item) []Item {
	out := make([]Item, len(a))
	for i, it := range a {
		out[i] = it
		out[i].L = append([]string{}, it.L...)
	}
	return out
}

// genTwin derives B from A by one adversarial relation.
func genTwin(t *rapid.T) Case {
	kind := rapid.SampledFrom([]string{"identical", "shift-item-boundary", "shift-domain-boundary", "split", "merge", "retype", "permute", "insert-empty",
		"ids-equal-concatenation", "ids-permuted", "bigint-sign", "nat-vs-int", "exponent-flag", "exponent-vs-coefs", "drop-item", "independent", "sigmsg-nil-vs-empty",
		"number-width", "scalar-vs-nat", "ciphertext-high-bits", "ciphertext-vs-bytes"}).Draw(t, "kind")
	pre := genSeq(t, 0, 3)
	post := genSeq(t, 0, 3)
	mk := func(a, b []Item) Case {
		return Case{Kind: kind, A: append(append(clone(pre), a...), clone(post)...), B: append(append(clone(pre), b...), clone(post)...)}
	}
	x := genBytes(t, "x", 1, 12)
	y := genBytes(t, "y", 1, 12)
	z := genBytes(t, "z", 1, 12)
	bt := rapid.SampledFrom(byteTypes).Draw(t, "bt")
	switch kind {
	case "identical":
		s := genSeq(t, 1, 4)
		return mk(s, clone(s))
	case "shift-item-boundary":
		return mk([]Item{{T: bt, V: x + y}, {T: bt, V: z}}, []Item{{T: bt, V: x}, {T: bt, V: y + z}})
	case "shift-domain-boundary":
		d := rapid.StringMatching("[a-z]{2,6}").Draw(t, "d")
		k := rapid.IntRange(1, len(d)-1).Draw(t, "k")
		return mk([]Item{{T: "bwd", D: "x-" + d, V: x}}, []Item{{T: "bwd", D: "x-" + d[:k], V: hex.EncodeToString([]byte(d[k:])) + x}})
	case "split":
		return mk([]Item{{T: bt, V: x + y}}, []Item{{T: bt, V: x}, {T: bt, V: y}})
	case "merge":
		return mk([]Item{{T: bt, V: x}, {T: bt, V: y}, {T: bt, V: z}}, []Item{{T: bt, V: x + y}, {T: bt, V: z}})
	case "retype":
		bt2 := rapid.SampledFrom(byteTypes).Filter(func(s string) bool { return s != bt }).Draw(t, "bt2")
		return mk([]Item{{T: bt, V: x}}, []Item{{T: bt2, V: x}})
	case "permute":
		a, b := genItem(t), genItem(t)
		return mk([]Item{a, b}, []Item{b, a})
	case "insert-empty":
		return mk([]Item{{T: bt, V: x}}, []Item{{T: bt, V: x}, {T: "bwd", D: "x-", V: ""}})
	case "ids-equal-concatenation":
		// same number of identifiers, same concatenation, different split
		a := []string{x, y + z}
		b := []string{x + y, z}
		extra := genBytes(t, "extra", 1, 3)
		return mk([]Item{{T: "ids", L: append(a, extra)}}, []Item{{T: "ids", L: append(b, extra)}})
	case "ids-permuted":
		return mk([]Item{{T: "ids", L: []string{x, y + "01"}}}, []Item{{T: "ids", L: []string{y + "01", x}}})
	case "bigint-sign":
		v := rapid.Int64Range(1, 1<<62).Draw(t, "v")
		return mk([]Item{{T: "bigint", V: fmt.Sprint(v)}}, []Item{{T: "bigint", V: fmt.Sprint(-v)}})
	case "nat-vs-int":
		v := rapid.Uint64Range(0, 1<<62).Draw(t, "v")
		tt := rapid.SampledFrom([]string{"int", "bigint", "modulus", "scalar"}).Draw(t, "other")
		if tt == "modulus" {
			v |= 1
			if v < 3 {
				v = 3
			}
		}
		return mk([]Item{{T: "nat", V: fmt.Sprint(v)}}, []Item{{T: tt, V: fmt.Sprint(v)}})
	case "ciphertext-high-bits":
		// two ciphertexts that agree in their low 2048 bits (the size of the modulus) and differ above
		lo := genBig(t, "lo", 2048)
		hi1, hi2 := genBig(t, "hi1", 2040), genBig(t, "hi2", 2040)
		if hi1 == hi2 {
			hi2 = "0"
		}
		v := func(hi string) string {
			a, _ := new(big.Int).SetString(hi, 10)
			b, _ := new(big.Int).SetString(lo, 10)
			return a.Lsh(a, 2048).Add(a, b).String()
		}
		return mk([]Item{{T: "ciphertext", V: v(hi1)}}, []Item{{T: "ciphertext", V: v(hi2)}})
	case "ciphertext-vs-bytes":
		c := genBig(t, "c", 4090)
		cb, _ := new(big.Int).SetString(c, 10)
		return mk([]Item{{T: "ciphertext", V: c}}, []Item{{T: "bytes", V: hex.EncodeToString(cb.FillBytes(make([]byte, 512)))}})
	case "exponent-flag":
		l := []string{fmt.Sprint(rapid.Uint64Range(1, 1<<60).Draw(t, "c0")), fmt.Sprint(rapid.Uint64Range(1, 1<<60).Draw(t, "c1"))}
		return mk([]Item{{T: "exponent", L: l, F: false}}, []Item{{T: "exponent", L: l, F: true}})
	case "exponent-vs-coefs":
		l := []string{fmt.Sprint(rapid.Uint64Range(1, 1<<60).Draw(t, "c0")), fmt.Sprint(rapid.Uint64Range(1, 1<<60).Draw(t, "c1"))}
		return mk([]Item{{T: "exponent", L: l}}, []Item{{T: "exponent", L: l[:1]}, {T: "point", V: l[1]}})
	case "drop-item":
		a := genSeq(t, 1, 3)
		return mk(a, a[:len(a)-1])
	case "sigmsg-nil-vs-empty":
		return mk([]Item{{T: "sigmsg-nil"}}, []Item{{T: "sigmsg", V: ""}})
	case "number-width":
		v := rapid.IntRange(0, 65535).Draw(t, "v")
		return mk([]Item{{T: "roundnumber", V: fmt.Sprint(v)}}, []Item{{T: "threshold", V: fmt.Sprint(v)}})
	case "scalar-vs-nat":
		v := rapid.Uint64().Draw(t, "v")
		return mk([]Item{{T: "scalar", V: fmt.Sprint(v)}}, []Item{{T: "bytes", V: fmt.Sprintf("%064x", v)}})
	default:
		return Case{Kind: "independent", A: genSeq(t, 0, 8), B: genSeq(t, 0, 8)}
	}
}

func TestTranscript(t *testing.T) {
	rapid.Check(t, func(rt *rapid.T) { prop.One(rt, genTwin(rt)) })
}

// ---- commitments

type commitCase struct {
	Data    []Item
	Open    []Item // what the opener claims
	OpenKnd string
	C, D    string // how commitment / decommitment are presented: own, other, zero, short, long, flipped
	Seed    uint64
}

func commitRun(c commitCase) *pbt.Fail {
	mux := tape.Install(c.Seed)
	defer mux.Uninstall()
	vals := func(items []Item) []interface{} {
		out := make([]interface{}, len(items))
		for i, it := range items {
			out[i] = build(it)
		}
		return out
	}
	h := hash.New()
	cm, dc, err := h.Commit(vals(c.Data)...)
	if err != nil {
		return nil // data the transcript refuses cannot be committed to
	}
	cm2, dc2, err := h.Commit(vals(c.Data)...)
	if err != nil {
		return pbt.Failf("commit-error", err.Error())
	}
	if bytes.Equal(cm, cm2) || bytes.Equal(dc, dc2) {
		return pbt.Failf("commit-not-hiding", "two commitments to the same data under a working random source coincide")
	}
	if !h.Decommit(cm, dc, vals(c.Data)...) {
		return pbt.Failf("commit-incomplete", "a commitment does not open to its own data and decommitment")
	}
	pick := func(kind string, own, other []byte) []byte {
		switch kind {
		case "other":
			return other
		case "zero":
			return make([]byte, len(own))
		case "short":
			return own[:len(own)-1]
		case "long":
			return append(append([]byte{}, own...), 0)
		case "flipped":
			o := append([]byte{}, own...)
			o[len(o)/2] ^= 0x10
			return o
		case "nil":
			return nil
		}
		return own
	}
	pc := hash.Commitment(pick(c.C, cm, cm2))
	pd := hash.Decommitment(pick(c.D, dc, dc2))
	got := h.Decommit(pc, pd, vals(c.Open)...)
	// a commitment opens with its own decommitment only ("other"/"other" is the second, equally valid, pair)
	want := (c.C == "own" || c.C == "other") && c.D == c.C && keys(c.Open) == keys(c.Data)
	if _, err := digest(c.Open); err != nil {
		want = false
	}
	if got != want {
		return pbt.Failf(fmt.Sprintf("decommit-mismatch:c=%s,d=%s,open=%s", c.C, c.D, c.OpenKnd), fmt.Sprintf("Decommit=%v, expected %v", got, want))
	}
	return nil
}

var commitProp = pbt.Define(pbt.Prop[commitCase]{Kind: "commitment", Run: commitRun, Class: func(c commitCase) (string, bool) {
	return fmt.Sprintf("c=%s|d=%s|open=%s", c.C, c.D, c.OpenKnd), c.C != "own" || c.D != "own" || c.OpenKnd != "same"
}})

func TestCommit(t *testing.T) {
	rapid.Check(t, func(rt *rapid.T) {
		tw := genTwin(rt)
		c := commitCase{Data: tw.A, Open: tw.B, OpenKnd: tw.Kind, Seed: rapid.Uint64Range(1, 1<<40).Draw(rt, "seed")}
		switch rapid.IntRange(0, 5).Draw(rt, "sameOpen") {
		case 0, 1:
			c.Open, c.OpenKnd = clone(tw.A), "same"
		case 2:
			// the committed tuple (or a prefix of it) followed by a value the transcript refuses and arbitrary further
			// items: an opener must not get everything from the refused item on ignored
			keep := rapid.IntRange(0, len(tw.A)).Draw(rt, "keep")
			c.Open = append(clone(tw.A[:keep]), Item{T: rapid.SampledFrom(unhashable).Draw(rt, "unhashable")})
			c.Open = append(c.Open, genSeq(rt, 0, 2)...)
			c.OpenKnd = "unhashable-tail"
			if keep == len(tw.A) {
				c.OpenKnd = "same+unhashable-tail"
			}
		}
		ks := []string{"own", "own", "own", "other", "zero", "short", "long", "flipped", "nil"}
		c.C = rapid.SampledFrom(ks).Draw(rt, "c")
		c.D = rapid.SampledFrom(ks).Draw(rt, "d")
		commitProp.One(rt, c)
	})
}
