package c19

import (
	"testing"

	"pgregory.net/rapid"
)

// FuzzTranscript drives the metamorphic transcript property with Go's coverage-guided fuzzer
// (thorough tier): the byte string is the source of rapid's draws.
func FuzzTranscript(f *testing.F) {
	f.Add([]byte{0})
	f.Add([]byte("ids-equal-concatenation"))
	f.Fuzz(rapid.MakeFuzz(func(rt *rapid.T) { prop.One(rt, genTwin(rt)) }))
}

func FuzzCommit(f *testing.F) {
	f.Add([]byte{0})
	f.Fuzz(rapid.MakeFuzz(func(rt *rapid.T) {
		tw := genTwin(rt)
		c := commitCase{Data: tw.A, Open: tw.B, OpenKnd: tw.Kind, Seed: rapid.Uint64Range(1, 1<<20).Draw(rt, "seed")}
		ks := []string{"own", "own", "other", "zero", "short", "long", "flipped", "nil"}
		c.C = rapid.SampledFrom(ks).Draw(rt, "c")
		c.D = rapid.SampledFrom(ks).Draw(rt, "d")
		commitProp.One(rt, c)
	}))
}
