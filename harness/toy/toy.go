// Package toy defines small deterministic protocols (round.Session implementations) that run through
// the real handlers in microseconds, so that delivery interleavings can be enumerated exhaustively.
//
// A toy protocol has k message rounds (numbered 2..k+1). The pattern gives, per message round, whether
// parties exchange a broadcast ('b'), point-to-point messages ('p') or both ('x'). Every payload is a
// hash of everything the sender has seen so far plus fresh randomness; the result is the hash of the
// party's complete view, so any difference in what was received (or in which order it was folded in)
// changes the result.
package toy

import (
	"crypto/rand"
	"crypto/sha256"
	"errors"
	"fmt"

	"github.com/taurusgroup/multi-party-sig/internal/round"
	"github.com/taurusgroup/multi-party-sig/pkg/party"
	"github.com/taurusgroup/multi-party-sig/pkg/protocol"
)

// Content is the payload of every toy message.
type Content struct {
	round.NormalBroadcastContent
	N uint16
	V []byte
}

func (c *Content) RoundNumber() round.Number { return round.Number(c.N) }

type state struct {
	*round.Helper
	pattern string
	num     round.Number
	view    []byte
	gotB    map[party.ID][]byte
	gotP    map[party.ID][]byte
}

func (s *state) kind() byte {
	if s.num < 2 {
		return 0
	}
	return s.pattern[s.num-2]
}

func (s *state) Number() round.Number { return s.num }

func (s *state) VerifyMessage(msg round.Message) error {
	c, ok := msg.Content.(*Content)
	if !ok || c == nil {
		return round.ErrInvalidContent
	}
	if len(c.V) != 32 {
		return errors.New("toy: bad payload length")
	}
	return nil
}

func (s *state) StoreMessage(msg round.Message) error {
	s.gotP[msg.From] = msg.Content.(*Content).V
	return nil
}

func (s *state) MessageContent() round.Content {
	if k := s.kind(); k == 'p' || k == 'x' {
		return &Content{}
	}
	return nil
}

func (s *state) storeBroadcast(msg round.Message) error {
	c, ok := msg.Content.(*Content)
	if !ok || c == nil {
		return round.ErrInvalidContent
	}
	if len(c.V) != 32 {
		return errors.New("toy: bad broadcast payload length")
	}
	s.gotB[msg.From] = c.V
	return nil
}

func h(parts ...[]byte) []byte {
	d := sha256.New()
	for _, p := range parts {
		var l [4]byte
		l[0], l[1], l[2], l[3] = byte(len(p)>>24), byte(len(p)>>16), byte(len(p)>>8), byte(len(p))
		d.Write(l[:])
		d.Write(p)
	}
	return d.Sum(nil)
}

// finalize folds this round's input into the view and produces the next round (or the result).
func (s *state) finalize(out chan<- *round.Message) (round.Session, error) {
	view := s.view
	for _, id := range s.PartyIDs() {
		view = h(view, []byte(id), s.gotB[id], s.gotP[id])
	}
	if s.num == s.FinalRoundNumber() {
		return s.ResultRound(view), nil
	}
	salt := make([]byte, 16)
	_, _ = rand.Read(salt)
	next := &state{Helper: s.Helper, pattern: s.pattern, num: s.num + 1, view: view, gotB: map[party.ID][]byte{}, gotP: map[party.ID][]byte{}}
	k := next.kind()
	if k == 'b' || k == 'x' {
		v := h(view, salt, []byte(s.SelfID()), []byte{byte(next.num), 'B'})
		next.gotB[s.SelfID()] = v
		if err := s.BroadcastMessage(out, &Content{N: uint16(next.num), V: v}); err != nil {
			return nil, err
		}
	}
	if k == 'p' || k == 'x' {
		for _, j := range s.OtherPartyIDs() {
			v := h(view, salt, []byte(s.SelfID()), []byte(j), []byte{byte(next.num), 'P'})
			if err := s.SendMessage(out, &Content{N: uint16(next.num), V: v}, j); err != nil {
				return nil, err
			}
		}
	}
	if k == 'p' {
		return &pRound{next}, nil
	}
	return &bRound{next}, nil
}

// pRound is a round without broadcast; bRound implements round.BroadcastRound.
type pRound struct{ *state }

func (r *pRound) Finalize(out chan<- *round.Message) (round.Session, error) { return r.finalize(out) }

type bRound struct{ *state }

func (r *bRound) Finalize(out chan<- *round.Message) (round.Session, error) { return r.finalize(out) }
func (r *bRound) StoreBroadcastMessage(msg round.Message) error             { return r.storeBroadcast(msg) }
func (r *bRound) BroadcastContent() round.BroadcastContent                  { return &Content{} }

var (
	_ round.Session        = (*pRound)(nil)
	_ round.BroadcastRound = (*bRound)(nil)
)

// Start returns the start function of a toy protocol with the given pattern, e.g. "bxp".
func Start(self party.ID, ids []party.ID, pattern string) protocol.StartFunc {
	return func(sessionID []byte) (round.Session, error) {
		for _, c := range pattern {
			if c != 'b' && c != 'p' && c != 'x' {
				return nil, fmt.Errorf("toy: bad pattern %q", pattern)
			}
		}
		info := round.Info{
			ProtocolID:       "toy/" + pattern,
			FinalRoundNumber: round.Number(len(pattern) + 1),
			SelfID:           self,
			PartyIDs:         ids,
			Threshold:        0,
		}
		helper, err := round.NewSession(info, sessionID, nil)
		if err != nil {
			return nil, err
		}
		return &pRound{&state{Helper: helper, pattern: pattern, num: 1, view: h([]byte("toy"), helper.SSID()),
			gotB: map[party.ID][]byte{}, gotP: map[party.ID][]byte{}}}, nil
	}
}
