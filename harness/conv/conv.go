// Package conv converts between library values and the reference representation (big.Int / ref.Pt),
// going through the library's documented byte encodings only.
package conv

import (
	"encoding/hex"
	"fmt"
	"math/big"
	"reflect"
	"unsafe"

	"github.com/cronokirby/saferith"
	"github.com/taurusgroup/multi-party-sig/pkg/math/curve"
	"github.com/taurusgroup/multi-party-sig/verifharness/ref"
)

var Group = curve.Secp256k1{}

// Scalar builds a library scalar from an integer (reduced mod n).
func Scalar(x *big.Int) curve.Scalar {
	x = new(big.Int).Mod(x, ref.N)
	return Group.NewScalar().SetNat(new(saferith.Nat).SetBytes(x.Bytes()))
}

// Big reads a library scalar.
func Big(s curve.Scalar) *big.Int {
	b, err := s.MarshalBinary()
	if err != nil {
		panic(err)
	}
	return new(big.Int).SetBytes(b)
}

// Point builds a library point from a reference point.
func Point(p ref.Pt) curve.Point {
	out := Group.NewPoint()
	if p.Inf {
		return out
	}
	if err := out.UnmarshalBinary(p.Compress()); err != nil {
		panic(fmt.Sprintf("conv.Point: %v", err))
	}
	return out
}

// Ref reads a library point into the reference representation.
func Ref(p curve.Point) ref.Pt {
	if p == nil || p.IsIdentity() {
		return ref.Infinity
	}
	b, err := p.MarshalBinary()
	if err != nil {
		panic(err)
	}
	r, ok := ref.Decompress(b)
	if !ok {
		panic("conv.Ref: library produced an encoding the reference cannot parse: " + hex.EncodeToString(b))
	}
	return r
}

func Hex(b []byte) string { return hex.EncodeToString(b) }

func UnHex(s string) []byte {
	b, err := hex.DecodeString(s)
	if err != nil {
		panic(err)
	}
	return b
}

func BigHex(s string) *big.Int {
	x, ok := new(big.Int).SetString(s, 16)
	if !ok {
		panic("bad hex int " + s)
	}
	return x
}

// Peek reads an unexported field of a struct (pointer to struct required) for oracle purposes.
// It panics when the field does not exist, which the driver reports as inconclusive.
func Peek(ptrToStruct interface{}, field string) interface{} {
	v := reflect.ValueOf(ptrToStruct)
	for v.Kind() == reflect.Ptr || v.Kind() == reflect.Interface {
		v = v.Elem()
	}
	f := v.FieldByName(field)
	if !f.IsValid() {
		panic(fmt.Sprintf("conv.Peek: no field %q in %s", field, v.Type()))
	}
	if !f.CanAddr() {
		panic("conv.Peek: not addressable")
	}
	return reflect.NewAt(f.Type(), unsafe.Pointer(f.UnsafeAddr())).Elem().Interface()
}

// Poke sets a (possibly unexported) field.
func Poke(ptrToStruct interface{}, field string, val interface{}) {
	v := reflect.ValueOf(ptrToStruct)
	for v.Kind() == reflect.Ptr || v.Kind() == reflect.Interface {
		v = v.Elem()
	}
	f := v.FieldByName(field)
	if !f.IsValid() {
		panic(fmt.Sprintf("conv.Poke: no field %q in %s", field, v.Type()))
	}
	reflect.NewAt(f.Type(), unsafe.Pointer(f.UnsafeAddr())).Elem().Set(reflect.ValueOf(val))
}

// DeepString renders a value including unexported fields (for comparing opaque library state).
func DeepString(v interface{}) string {
	return fmt.Sprintf("%+v", deepValue(reflect.ValueOf(v), 0))
}

func deepValue(v reflect.Value, depth int) interface{} {
	if depth > 14 || !v.IsValid() {
		return nil
	}
	switch v.Kind() {
	case reflect.Ptr, reflect.Interface:
		if v.IsNil() {
			return nil
		}
		return deepValue(v.Elem(), depth+1)
	case reflect.Struct:
		out := map[string]interface{}{}
		for i := 0; i < v.NumField(); i++ {
			f := v.Field(i)
			if !f.CanAddr() {
				tmp := reflect.New(v.Type()).Elem()
				tmp.Set(v)
				f = tmp.Field(i)
			}
			f = reflect.NewAt(f.Type(), unsafe.Pointer(f.UnsafeAddr())).Elem()
			out[v.Type().Field(i).Name] = deepValue(f, depth+1)
		}
		return out
	case reflect.Array, reflect.Slice:
		if v.Type().Elem().Kind() == reflect.Uint8 {
			b := make([]byte, v.Len())
			for i := range b {
				b[i] = byte(v.Index(i).Uint())
			}
			return hex.EncodeToString(b)
		}
		out := make([]interface{}, v.Len())
		for i := range out {
			out[i] = deepValue(v.Index(i), depth+1)
		}
		return out
	}
	if v.CanInterface() {
		return v.Interface()
	}
	return fmt.Sprint(v)
}
