package c04

import (
	"encoding/json"
	"errors"
	"fmt"
	"os"
	"path/filepath"
	"sort"
	"strings"
	"testing"

	"github.com/taurusgroup/multi-party-sig/verifharness/adv"
	"github.com/taurusgroup/multi-party-sig/verifharness/advrun"
	"github.com/taurusgroup/multi-party-sig/verifharness/ev"
	"github.com/taurusgroup/multi-party-sig/verifharness/mut"
	"github.com/taurusgroup/multi-party-sig/verifharness/pbt"
	"github.com/taurusgroup/multi-party-sig/verifharness/proto"
	"github.com/taurusgroup/multi-party-sig/verifharness/sim"
	"pgregory.net/rapid"
)

func TestMain(m *testing.M)   { pbt.Main(m) }
func TestReplay(t *testing.T) { pbt.Replay(t) }
func TestCorpus(t *testing.T) { pbt.Corpus(t) }

func fail(err error, stage string) *pbt.Fail {
	var pe *sim.PanicError
	if errors.As(err, &pe) {
		return pbt.Failf("panic:"+stage+":"+ev.PanicSite(pe.Stack), "a party panics while processing the deviating party's traffic: "+pe.Error()+"\n"+trim(pe.Stack))
	}
	var he *sim.HangError
	if errors.As(err, &he) || strings.Contains(err.Error(), "step timeout") {
		return pbt.Failf("inconclusive:hang", err.Error())
	}
	return pbt.Failf("harness-error:"+stage, err.Error())
}

func trim(s string) string {
	var keep []string
	for _, l := range strings.Split(s, "\n") {
		if strings.Contains(l, "/repo/") {
			keep = append(keep, strings.TrimSpace(l))
		}
		if len(keep) > 10 {
			break
		}
	}
	return strings.Join(keep, "\n")
}

// ---- state-level deviations of a presigner (O3 identifiable abort, O1 soundness)

type devCase struct {
	Variant   string // cmp-presign (offline), cmp-presign-full, cmp-presign-online
	Signers   int
	Cheater   int
	Deviation string
	Seed      uint64
	DropAbort bool
	Sched     []int
	MsgLen    int // 0 = the standard 32-byte message hash
}

var lastSummary string

// nthProofError is how abort1/abort2 report a failed verification of a peer's abort broadcast.
const nthProofError = "failed to validate Delta MtA Nth proof"

func devRun(c devCase) *pbt.Fail {
	lastSummary = ""
	rep, err := advrun.Run(advrun.Case{Setup: advrun.Setup{Proto: c.Variant, N: c.Signers, T: c.Signers - 1, Seed: c.Seed, MsgLen: c.MsgLen}, Cheater: c.Cheater,
		Deviation: c.Deviation, DropAbort: c.DropAbort, Sched: c.Sched})
	if err != nil {
		return fail(err, c.Variant+":"+c.Deviation)
	}
	lastSummary = rep.Summary()
	if rep.DevHits == 0 {
		return pbt.Failf("harness-error:deviation-not-applied", "the deviation hook never fired")
	}
	if sig, d := rep.UnsoundBlame(); sig != "" {
		if strings.Contains(d, nthProofError) {
			// recorded finding: abort1/abort2 check every sender's Nth-root proofs against the wrong ciphertexts
			return pbt.Failf("honest-party-blamed:abort-round-nth-proof:"+c.Variant, d)
		}
		return pbt.Failf(sig+":"+c.Deviation, d)
	}
	if sig, d := rep.WrongResult(); sig != "" {
		return pbt.Failf(sig+":"+c.Deviation, d)
	}
	// O3: every honest signer singles out the cheater
	for _, id := range rep.Honest {
		if rep.Relayed[id] {
			continue
		}
		if !rep.BlamesExactly(id) {
			o := rep.Outcome[id]
			if o.Err != nil && strings.Contains(o.Err.Error(), nthProofError) {
				return pbt.Failf("cheater-not-identified:abort-round-nth-proof:"+c.Variant, fmt.Sprintf("honest signer %q: %v", id, o.Err))
			}
			return pbt.Failf(fmt.Sprintf("cheater-not-identified:%s:%s", c.Variant, c.Deviation),
				fmt.Sprintf("honest signer %q does not single out the cheating signer %q: finished=%v culprits=%v err=%v (all: %s)", id, rep.Cheater, o.Finished, o.Culprits, o.Err, lastSummary))
		}
	}
	return nil
}

var devProp = pbt.Define(pbt.Prop[devCase]{Kind: "presign-deviation", Run: devRun, Journal: true, Class: func(c devCase) (string, bool) {
	return fmt.Sprintf("dev|%s|%s|signers=%d|cheater=%d|drop=%v|msg=%d|%s", c.Variant, c.Deviation, c.Signers, c.Cheater, c.DropAbort, c.MsgLen, lastSummary), true
}})

func applicable(variant, dev string) bool {
	if variant == proto.CMPPresignOnline {
		return strings.HasPrefix(dev, "sigma-")
	}
	if variant == proto.CMPPresign {
		return !strings.HasPrefix(dev, "sigma-")
	}
	return true
}

func TestDeviations(t *testing.T) {
	rapid.Check(t, func(rt *rapid.T) {
		c := devCase{Variant: rapid.SampledFrom([]string{proto.CMPPresign, proto.CMPPresignFull, proto.CMPPresignFull, proto.CMPPresignOnline}).Draw(rt, "variant")}
		var devs []string
		for _, d := range advrun.Deviations {
			if applicable(c.Variant, d) {
				devs = append(devs, d)
			}
		}
		c.Deviation = rapid.SampledFrom(devs).Draw(rt, "deviation")
		c.Signers = rapid.SampledFrom([]int{2, 3, 3}).Draw(rt, "signers")
		if ev.Get().Thorough() && rapid.IntRange(0, 5).Draw(rt, "four") == 0 {
			c.Signers = 4
		}
		c.Cheater = rapid.IntRange(0, c.Signers-1).Draw(rt, "cheater")
		c.Seed = rapid.Uint64Range(1, 3).Draw(rt, "seed")
		c.DropAbort = rapid.Bool().Draw(rt, "dropAbort")
		c.Sched = rapid.SliceOfN(rapid.IntRange(0, 4095), 0, 30).Draw(rt, "sched")
		if c.Variant != proto.CMPPresign {
			c.MsgLen = rapid.SampledFrom([]int{0, 0, 20, 33, 64}).Draw(rt, "msgLen")
		}
		devProp.One(rt, c)
	})
}

// TestSigmaShare enumerates the wrong-sigma-share deviation (the one whose identification runs through
// PreSignature.VerifySignatureShares) over variant x message-hash length x number of signers x cheater position: every
// honest signer must single out the cheater, for short, standard and long hashes alike.
func TestSigmaShare(t *testing.T) {
	rec := ev.Get()
	i := 0
	type cfg struct {
		variant string
		lens    []int
		ns      []int
	}
	cfgs := []cfg{{proto.CMPPresignOnline, []int{0, 20, 33, 64}, []int{2, 3}}, {proto.CMPPresignFull, []int{0, 64}, []int{2}}}
	if rec.Thorough() {
		cfgs = []cfg{{proto.CMPPresignOnline, []int{0, 1, 20, 31, 33, 64, 100}, []int{2, 3, 4}}, {proto.CMPPresignFull, []int{0, 20, 33, 64}, []int{2, 3}}}
	}
	for _, c := range cfgs {
		for _, l := range c.lens {
			for _, n := range c.ns {
				for cheater := 0; cheater < n; cheater++ {
					for _, dev := range []string{"sigma-share", "sigma-neg"} {
						if dev == "sigma-neg" && l != 0 && l != 64 {
							continue
						}
						i++
						if !rec.Mine(i) {
							continue
						}
						devProp.One(t, devCase{Variant: c.variant, Signers: n, Cheater: cheater, Deviation: dev, Seed: 1, MsgLen: l})
					}
				}
			}
		}
	}
}

// ---- ciphertext-level deviations: a well-formed ciphertext of a wrong value in ONE direct message (O1, and the
// recipient's verification failure must be attributed to exactly the sender)

type ctCase struct {
	Setup     advrun.Setup
	Cheater   int
	Deviation string
}

func ctRun(c ctCase) *pbt.Fail {
	lastSummary = ""
	rep, err := advrun.Run(advrun.Case{Setup: c.Setup, Cheater: c.Cheater, Deviation: c.Deviation})
	if err != nil {
		return fail(err, c.Setup.Proto+":"+c.Deviation)
	}
	lastSummary = rep.Summary()
	if rep.DevHits == 0 {
		return pbt.Failf("harness-error:deviation-not-applied", "the deviation hook never fired")
	}
	if sig, d := rep.UnsoundBlame(); sig != "" {
		return pbt.Failf(sig+":"+c.Deviation, d)
	}
	if sig, d := rep.WrongResult(); sig != "" {
		return pbt.Failf(sig+":"+c.Deviation, d)
	}
	named := false
	for _, id := range rep.Honest {
		named = named || rep.BlamesExactly(id)
	}
	if !named {
		return pbt.Failf("cheater-not-identified:"+c.Setup.Proto+":"+c.Deviation, "no honest party attributes the wrong value to its sender: "+lastSummary)
	}
	return nil
}

var ctProp = pbt.Define(pbt.Prop[ctCase]{Kind: "ciphertext-deviation", Run: ctRun, Journal: true, Class: func(c ctCase) (string, bool) {
	return fmt.Sprintf("ct|%s|n=%d|%s|cheater=%d|%s", c.Setup.Proto, c.Setup.N, c.Deviation, c.Cheater, lastSummary), true
}})

// TestCtDeviations enumerates protocol x deviation (quick: n=2, one cheater position per deviation; thorough: n=2,3, all).
func TestCtDeviations(t *testing.T) {
	rec := ev.Get()
	i := 0
	for _, p := range []string{proto.CMPKeygen, proto.CMPRefresh, proto.CMPSign, proto.CMPPresign, proto.CMPPresignFull} {
		devs := advrun.CiphertextDeviationsFor(p)
		ns := []int{2}
		if rec.Thorough() {
			ns = []int{2, 3}
		}
		for _, n := range ns {
			for di, d := range devs {
				for cheater := 0; cheater < n; cheater++ {
					if !rec.Thorough() && cheater != (di+1)%n {
						continue
					}
					i++
					if !rec.Mine(i) {
						continue
					}
					ctProp.One(t, ctCase{Setup: advrun.Setup{Proto: p, N: n, T: n - 1, Seed: 2}, Cheater: cheater, Deviation: d})
				}
			}
		}
	}
}

// ---- wire-level alterations (O1 universal, O2 for catalogued fields)

type wireCase struct {
	Setup     advrun.Setup
	Cheater   int
	Tamper    adv.Tamper
	DropAbort bool
	Sched     []int
}

// catalogue: alterations that must be attributed to the cheater by every honest party that received them.
type catEntry struct {
	Proto     string
	Round     int
	Broadcast bool
	Path      string // generic path
}

var catalogue map[string]bool

func catKey(p string, round int, bc bool, generic string) string {
	return fmt.Sprintf("%s|%d|%v|%s", p, round, bc, generic)
}

func loadCatalogue() {
	if catalogue != nil {
		return
	}
	catalogue = map[string]bool{}
	data, err := os.ReadFile(filepath.Join(os.Getenv("VERIF_ROOT"), "catalogue", "o2.json"))
	if err != nil {
		return
	}
	var es []catEntry
	if json.Unmarshal(data, &es) != nil {
		return
	}
	for _, e := range es {
		catalogue[catKey(e.Proto, e.Round, e.Broadcast, e.Path)] = true
	}
}

var lastWire string

func wireRun(c wireCase) *pbt.Fail {
	lastWire = ""
	loadCatalogue()
	rep, err := advrun.Run(advrun.Case{Setup: c.Setup, Cheater: c.Cheater, Tamper: &c.Tamper, DropAbort: c.DropAbort, Sched: c.Sched})
	if err != nil {
		return fail(err, c.Setup.Proto)
	}
	if rep.Applied == nil || rep.Applied.Count == 0 {
		lastWire = "not-applied"
		return nil
	}
	kindName := c.Tamper.Kind
	if c.Tamper.Early {
		kindName += "+early"
	}
	lastWire = fmt.Sprintf("r%d|bc=%v|%s|%s|%s|%s", c.Tamper.Round, c.Tamper.Broadcast, rep.Applied.Generic, rep.Applied.LeafKind, kindName, rep.Summary())
	if sig, d := rep.UnsoundBlame(); sig != "" {
		return pbt.Failf(sig, fmt.Sprintf("%s (alteration: %s of %s in round %d)", d, c.Tamper.Kind, rep.Applied.Generic, c.Tamper.Round))
	}
	if c.Tamper.Kind == "value" && !c.Tamper.Early && catalogue[catKey(c.Setup.Proto, c.Tamper.Round, c.Tamper.Broadcast, rep.Applied.Generic)] {
		// The catalogue was established with two parties, where the one honest recipient is the party that verifies the
		// altered field. With more parties a field may be verified by ONE recipient only (an entry of a per-recipient map in
		// a broadcast): the others never see a failing verification and may legitimately end anonymously (echo mismatch) or
		// through a relayed notice. There the requirement is that the sender IS identified by at least one honest party.
		named := 0
		for _, id := range rep.Honest {
			if !rep.Applied.Reached[string(id)] || rep.Relayed[id] {
				continue
			}
			if rep.BlamesExactly(id) {
				named++
				continue
			}
			if c.Setup.N == 2 {
				o := rep.Outcome[id]
				return pbt.Failf(fmt.Sprintf("not-attributed:%s:r%d:%s", c.Setup.Proto, c.Tamper.Round, rep.Applied.Generic),
					fmt.Sprintf("honest party %q received an altered %s (round %d, broadcast=%v) from %q but does not end with an error naming exactly the sender: finished=%v culprits=%v err=%v",
						id, rep.Applied.Generic, c.Tamper.Round, c.Tamper.Broadcast, rep.Cheater, o.Finished, o.Culprits, o.Err))
			}
		}
		if c.Setup.N > 2 && named == 0 {
			return pbt.Failf(fmt.Sprintf("not-attributed:%s:r%d:%s", c.Setup.Proto, c.Tamper.Round, rep.Applied.Generic),
				fmt.Sprintf("no honest party attributes the altered %s (round %d, broadcast=%v) to its sender %q: %s", rep.Applied.Generic, c.Tamper.Round, c.Tamper.Broadcast, rep.Cheater, rep.Summary()))
		}
	}
	return nil
}

var wireProp = pbt.Define(pbt.Prop[wireCase]{Kind: "wire-alteration", Run: wireRun, Journal: true, Class: func(c wireCase) (string, bool) {
	return fmt.Sprintf("wire|%s|n=%d|%s", c.Setup.Proto, c.Setup.N, lastWire), lastWire != "not-applied"
}})

// template lists the (round, broadcast, to, path) combinations of the cheater's traffic in the honest run.
type slot struct {
	Round     int
	Broadcast bool
	To        string
	Path      string
}

var slotCache = map[string][]slot{}

func slots(s advrun.Setup, cheater int) ([]slot, error) {
	key := fmt.Sprintf("%v/%d", s, cheater)
	if v, ok := slotCache[key]; ok {
		return v, nil
	}
	n, err := advrun.Honest(s)
	if err != nil {
		return nil, err
	}
	p := n.Parties[cheater%len(n.Parties)]
	var out []slot
	seen := map[string]bool{}
	for _, m := range p.Sent {
		if m.RoundNumber == 0 {
			continue
		}
		for _, path := range adv.LeafPaths(m.Data) {
			// one recipient per (round, kind, generic path) is enough for p2p traffic
			k := fmt.Sprintf("%d|%v|%s", m.RoundNumber, m.Broadcast, path)
			if seen[k] {
				continue
			}
			seen[k] = true
			out = append(out, slot{Round: int(m.RoundNumber), Broadcast: m.Broadcast, To: string(m.To), Path: path})
		}
	}
	slotCache[key] = out
	return out, nil
}

var cheapProtos = []string{proto.FrostKeygen, proto.FrostKeygenTap, proto.FrostRefresh, proto.FrostSign, proto.FrostSignTap, proto.DoernerKeygen, proto.DoernerRefresh, proto.DoernerSign}
var cmpProtos = []string{proto.CMPKeygen, proto.CMPRefresh, proto.CMPSign, proto.CMPPresign, proto.CMPPresignFull, proto.CMPPresignOnline}

func genWire(t *rapid.T, protos []string, maxN int) (wireCase, bool) {
	p := rapid.SampledFrom(protos).Draw(t, "proto")
	c := wireCase{Setup: advrun.Setup{Proto: p, Seed: rapid.Uint64Range(1, 2).Draw(t, "seed")}}
	if strings.HasPrefix(p, "doerner") {
		c.Setup.N, c.Setup.T = 2, 1
	} else {
		c.Setup.N = rapid.IntRange(2, maxN).Draw(t, "n")
		c.Setup.T = c.Setup.N - 1
		if !strings.HasPrefix(p, "cmp-") {
			c.Setup.T = rapid.IntRange(0, c.Setup.N-1).Draw(t, "t")
			if strings.Contains(p, "sign") {
				c.Setup.T = c.Setup.N - 1
			}
		}
	}
	if strings.Contains(p, "sign") && p != proto.CMPPresign {
		c.Setup.MsgLen = rapid.SampledFrom([]int{0, 0, 0, 20, 33, 64}).Draw(t, "msgLen")
	}
	c.Cheater = rapid.IntRange(0, c.Setup.N-1).Draw(t, "cheater")
	ss, err := slots(c.Setup, c.Cheater)
	if err != nil || len(ss) == 0 {
		return c, false
	}
	// two-stage choice: first the message field (array positions collapsed), then one occurrence of it; a uniform choice over
	// all leaves would spend almost every case on the hundreds of entries of the OT matrices
	var fields []string
	byField := map[string][]slot{}
	for _, sl := range ss {
		k := fmt.Sprintf("%d|%v|%s|%s", sl.Round, sl.Broadcast, sl.To, mut.Generic(sl.Path))
		if _, ok := byField[k]; !ok {
			fields = append(fields, k)
		}
		byField[k] = append(byField[k], sl)
	}
	group := byField[fields[rapid.IntRange(0, len(fields)-1).Draw(t, "field")]]
	s := group[rapid.IntRange(0, len(group)-1).Draw(t, "slot")]
	kind := rapid.SampledFrom([]string{"value", "value", "value", "copy-other-recipient", "copy-other-sender", "substitute-other-recipient", "substitute-other-round"}).Draw(t, "kind")
	c.Tamper = adv.Tamper{Round: s.Round, Broadcast: s.Broadcast, To: s.To, Path: s.Path, Kind: kind, Variant: rapid.IntRange(0, 5).Draw(t, "variant")}
	if (s.Round >= 3 || strings.HasPrefix(p, "doerner")) && (kind == "value" || kind == "copy-other-sender") {
		// the altered message may also arrive ahead of its round (it is then queued and verified when the round is reached)
		c.Tamper.Early = rapid.IntRange(0, 3).Draw(t, "early") == 0
	}
	c.DropAbort = rapid.Bool().Draw(t, "dropAbort")
	c.Sched = rapid.SliceOfN(rapid.IntRange(0, 4095), 0, 30).Draw(t, "sched")
	return c, true
}

func TestWireCheap(t *testing.T) {
	rapid.Check(t, func(rt *rapid.T) {
		if c, ok := genWire(rt, cheapProtos, 4); ok {
			wireProp.One(rt, c)
		}
	})
}

func TestWireCMP(t *testing.T) {
	rapid.Check(t, func(rt *rapid.T) {
		if c, ok := genWire(rt, cmpProtos, 3); ok {
			wireProp.One(rt, c)
		}
	})
}

// TestWalkCatalogue (thorough) visits every catalogued field of every protocol systematically.
func TestWalkCatalogue(t *testing.T) {
	rec := ev.Get()
	loadCatalogue()
	i := 0
	for _, p := range append(append([]string{}, cheapProtos...), cmpProtos...) {
		s := advrun.Setup{Proto: p, N: 2, T: 1, Seed: 1}
		for cheater := 0; cheater < 2; cheater++ {
			ss, err := slots(s, cheater)
			if err != nil {
				t.Fatalf("%s: %v", p, err)
			}
			for _, sl := range ss {
				if !catalogue[catKey(p, sl.Round, sl.Broadcast, mut.Generic(sl.Path))] {
					continue
				}
				i++
				if !rec.Mine(i) {
					continue
				}
				wireProp.One(t, wireCase{Setup: s, Cheater: cheater, Tamper: adv.Tamper{Round: sl.Round, Broadcast: sl.Broadcast, To: sl.To, Path: sl.Path, Kind: "value", Variant: i}})
			}
		}
	}
}

// TestGenCatalogue is a maintenance entry (not part of any tier): it runs every value-level alteration of
// every field on the current tree and writes the outcome table from which catalogue/o2.json is curated.
func TestGenCatalogue(t *testing.T) {
	out := os.Getenv("VERIF_CATALOGUE_OUT")
	if out == "" {
		t.Skip("maintenance only")
	}
	rec := ev.Get()
	type row struct {
		catEntry
		Cheater  int
		LeafKind string
		Summary  string
	}
	var rows []row
	i := 0
	for _, p := range append(append([]string{}, cheapProtos...), cmpProtos...) {
		s := advrun.Setup{Proto: p, N: 2, T: 1, Seed: 1}
		for cheater := 0; cheater < 2; cheater++ {
			ss, err := slots(s, cheater)
			if err != nil {
				t.Fatalf("%s: %v", p, err)
			}
			for _, sl := range ss {
				i++
				if !rec.Mine(i) {
					continue
				}
				tm := adv.Tamper{Round: sl.Round, Broadcast: sl.Broadcast, To: sl.To, Path: sl.Path, Kind: "value", Variant: 0}
				rep, err := advrun.Run(advrun.Case{Setup: s, Cheater: cheater, Tamper: &tm})
				sum := ""
				lk := ""
				if err != nil {
					sum = "ERROR: " + err.Error()
				} else if rep.Applied == nil || rep.Applied.Count == 0 {
					sum = "not-applied"
				} else {
					sum, lk = rep.Summary(), rep.Applied.LeafKind
				}
				rows = append(rows, row{catEntry{p, sl.Round, sl.Broadcast, mut.Generic(sl.Path)}, cheater, lk, sum})
			}
		}
	}
	sort.Slice(rows, func(a, b int) bool { return fmt.Sprint(rows[a]) < fmt.Sprint(rows[b]) })
	b, _ := json.MarshalIndent(rows, "", " ")
	_ = os.WriteFile(fmt.Sprintf("%s.%d", out, rec.Shard), b, 0o644)
}
