package c12

import (
	"fmt"
	"math/big"
	"testing"

	"github.com/cronokirby/saferith"
	"github.com/taurusgroup/multi-party-sig/internal/mta"
	"github.com/taurusgroup/multi-party-sig/pkg/hash"
	"github.com/taurusgroup/multi-party-sig/pkg/math/curve"
	"github.com/taurusgroup/multi-party-sig/pkg/math/sample"
	"github.com/taurusgroup/multi-party-sig/pkg/paillier"
	"github.com/taurusgroup/multi-party-sig/pkg/pedersen"
	zkaffg "github.com/taurusgroup/multi-party-sig/pkg/zk/affg"
	zkaffp "github.com/taurusgroup/multi-party-sig/pkg/zk/affp"
	"github.com/taurusgroup/multi-party-sig/verifharness/conv"
	"github.com/taurusgroup/multi-party-sig/verifharness/ev"
	"github.com/taurusgroup/multi-party-sig/verifharness/fix"
	"github.com/taurusgroup/multi-party-sig/verifharness/pbt"
	"github.com/taurusgroup/multi-party-sig/verifharness/ref"
	"github.com/taurusgroup/multi-party-sig/verifharness/tape"
	"pgregory.net/rapid"
)

func TestMain(m *testing.M)   { pbt.Main(m) }
func TestReplay(t *testing.T) { pbt.Replay(t) }
func TestCorpus(t *testing.T) { pbt.Corpus(t) }

type key struct {
	sk    *paillier.SecretKey
	fast  *paillier.PublicKey // knows the factorisation (CRT paths)
	plain *paillier.PublicKey // only N
	ref   *ref.Paillier
	ped   *pedersen.Parameters
}

var keys = map[int]*key{}

func getKey(i int) *key {
	i %= 6
	if k, ok := keys[i]; ok {
		return k
	}
	p, q := fix.PrimePair(i)
	sk := paillier.NewSecretKeyFromPrimes(p, q)
	k := &key{sk: sk, fast: sk.PublicKey, plain: paillier.NewPublicKey(sk.PublicKey.N()), ref: ref.NewPaillier(p.Big(), q.Big())}
	s, t, _ := sample.Pedersen(tape.NewStream(uint64(i), "ped", 0), sk.Phi(), sk.N())
	k.ped = pedersen.New(k.plain.Modulus(), s, t)
	keys[i] = k
	return k
}

func sint(x *big.Int) *saferith.Int { return new(saferith.Int).SetBig(x, x.BitLen()) }
func snat(x *big.Int) *saferith.Nat { return new(saferith.Nat).SetBig(x, x.BitLen()) }

func ct(x *big.Int) *paillier.Ciphertext {
	c := &paillier.Ciphertext{}
	b := x.Bytes()
	if len(b) == 0 {
		b = []byte{0}
	}
	if err := c.UnmarshalBinary(b); err != nil {
		panic(err)
	}
	return c
}

// Num is a big integer described relative to the key, so that cases stay readable and shrinkable.
type Num struct {
	Base string // 0, half (=(N-1)/2), N, N2, p, q, pow2 (2^K), rand
	K    int
	Off  int64
	Neg  bool
	Rand string // hex, for Base == rand
}

func (n Num) val(k *ref.Paillier) *big.Int {
	var x *big.Int
	switch n.Base {
	case "half":
		x = k.Half()
	case "N":
		x = new(big.Int).Set(k.N)
	case "N2":
		x = new(big.Int).Set(k.N2)
	case "p":
		x = new(big.Int).Mul(k.P, big.NewInt(int64(n.K%7+1)))
	case "q":
		x = new(big.Int).Mul(k.Q, big.NewInt(int64(n.K%7+1)))
	case "pow2":
		x = new(big.Int).Lsh(big.NewInt(1), uint(n.K))
	case "rand":
		x = conv.BigHex("0" + n.Rand)
	default:
		x = new(big.Int)
	}
	x.Add(x, big.NewInt(n.Off))
	if n.Neg {
		x.Neg(x)
	}
	return x
}

func (n Num) class() string {
	if n.Base == "rand" {
		return "rand"
	}
	s := fmt.Sprintf("%s%+d", n.Base, n.Off)
	if n.Neg {
		s = "-" + s
	}
	return s
}

func genPlain(t *rapid.T, label string) Num {
	n := Num{Base: rapid.SampledFrom([]string{"0", "half", "pow2", "rand", "rand"}).Draw(t, label+"Base")}
	n.Neg = rapid.Bool().Draw(t, label+"Neg")
	switch n.Base {
	case "0":
		n.Off = int64(rapid.IntRange(0, 2).Draw(t, label+"Off"))
	case "half":
		n.Off = int64(rapid.IntRange(-2, 2).Draw(t, label+"Off"))
	case "pow2":
		n.K = rapid.SampledFrom([]int{1, 8, 64, 255, 256, 257, 512, 1024, 2045, 2046}).Draw(t, label+"K")
		n.Off = int64(rapid.IntRange(-1, 1).Draw(t, label+"Off"))
	case "rand":
		l := rapid.SampledFrom([]int{8, 32, 64, 128, 255}).Draw(t, label+"Len")
		n.Rand = conv.Hex(rapid.SliceOfN(rapid.Byte(), l, l).Draw(t, label+"Rand"))
	}
	return n
}

type encCase struct {
	Key   int
	Plain bool // use the key without factorisation
	M     Num
	Rho   Num
}

func refuses(f func()) (refused bool) {
	defer func() {
		if recover() != nil {
			refused = true
		}
	}()
	f()
	return false
}

func encRun(c encCase) *pbt.Fail {
	k := getKey(c.Key)
	pk := k.fast
	if c.Plain {
		pk = k.plain
	}
	m := c.M.val(k.ref)
	rho := new(big.Int).Mod(c.Rho.val(k.ref), k.ref.N)
	if rho.Sign() == 0 || new(big.Int).GCD(nil, nil, rho, k.ref.N).Cmp(big.NewInt(1)) != 0 {
		rho = big.NewInt(1)
	}
	if !k.ref.InRange(m) {
		// outside [-(N-1)/2, (N-1)/2]: must be refused (documented panic)
		var c1 *paillier.Ciphertext
		if !refuses(func() { c1 = pk.EncWithNonce(sint(m), snat(rho)) }) {
			return pbt.Failf("enc-out-of-range-accepted", fmt.Sprintf("EncWithNonce accepted plaintext %s outside the range (ciphertext %v)", c.M.class(), c1 != nil))
		}
		return nil
	}
	got := pk.EncWithNonce(sint(m), snat(rho))
	want := k.ref.Enc(m, rho)
	if got.Nat().Big().Cmp(want) != 0 {
		return pbt.Failf("enc-mismatch", fmt.Sprintf("EncWithNonce(%s) differs from (1+N)^m rho^N mod N^2", c.M.class()))
	}
	dec, err := k.sk.Dec(got)
	if err != nil {
		return pbt.Failf("dec-error", err.Error())
	}
	if dec.Big().Cmp(m) != 0 {
		return pbt.Failf("dec-mismatch", fmt.Sprintf("Dec(Enc(%s)) = %s", c.M.class(), dec.Big()))
	}
	m2, rho2, err := k.sk.DecWithRandomness(got)
	if err != nil {
		return pbt.Failf("decrand-error", err.Error())
	}
	if m2.Big().Cmp(m) != 0 {
		return pbt.Failf("decrand-plaintext", "DecWithRandomness returns a different plaintext")
	}
	if !pk.EncWithNonce(m2, rho2).Equal(got) {
		return pbt.Failf("decrand-randomness", "re-encrypting with the recovered randomness gives a different ciphertext")
	}
	if k.ref.Enc(m, rho2.Big()).Cmp(want) != 0 {
		return pbt.Failf("decrand-randomness", "recovered randomness does not reproduce the ciphertext in the reference")
	}
	return nil
}

var encProp = pbt.Define(pbt.Prop[encCase]{Kind: "paillier-enc", Run: encRun, Class: func(c encCase) (string, bool) {
	return fmt.Sprintf("enc|plainkey=%v|m=%s|rho=%s", c.Plain, c.M.class(), c.Rho.class()), c.M.Base != "rand" || c.Rho.Base != "rand"
}})

func genRho(t *rapid.T) Num {
	switch rapid.IntRange(0, 3).Draw(t, "rhoKind") {
	case 0:
		return Num{Base: "0", Off: 1}
	case 1:
		return Num{Base: "N", Off: -1}
	default:
		return Num{Base: "rand", Rand: conv.Hex(rapid.SliceOfN(rapid.Byte(), 250, 250).Draw(t, "rho"))}
	}
}

func TestEncDec(t *testing.T) {
	rapid.Check(t, func(rt *rapid.T) {
		encProp.One(rt, encCase{Key: rapid.IntRange(0, 5).Draw(rt, "key"), Plain: rapid.Bool().Draw(rt, "plain"), M: genPlain(rt, "m"), Rho: genRho(rt)})
	})
}

// ---- homomorphic operations

type homCase struct {
	Key   int
	Plain bool
	A, B  Num // plaintexts
	K     Num // scalar
	Op    string
}

func homRun(c homCase) *pbt.Fail {
	k := getKey(c.Key)
	pk := k.fast
	if c.Plain {
		pk = k.plain
	}
	a, b := k.ref.Sym(c.A.val(k.ref)), k.ref.Sym(c.B.val(k.ref))
	ca := pk.EncWithNonce(sint(a), snat(big.NewInt(2)))
	cb := pk.EncWithNonce(sint(b), snat(big.NewInt(3)))
	ra, rb := k.ref.Enc(a, big.NewInt(2)), k.ref.Enc(b, big.NewInt(3))
	// the operands of a homomorphic operation are still the encryptions they were afterwards (the operation is applied to
	// a Clone, as every caller in the library does)
	operands := func() *pbt.Fail {
		if ca.Nat().Big().Cmp(ra) != 0 || cb.Nat().Big().Cmp(rb) != 0 {
			return pbt.Failf("operand-modified:"+c.Op, "a homomorphic operation on a Clone changed one of its operands")
		}
		return nil
	}
	switch c.Op {
	case "add":
		got := ca.Clone().Add(pk, cb)
		if f := operands(); f != nil {
			return f
		}
		want := k.ref.Add(ra, rb)
		if got.Nat().Big().Cmp(want) != 0 {
			return pbt.Failf("add-mismatch", "Add differs from ciphertext multiplication mod N^2")
		}
		dec, err := k.sk.Dec(got)
		if err != nil {
			return pbt.Failf("dec-error", err.Error())
		}
		sum := new(big.Int).Add(a, b)
		if k.ref.InRange(sum) && dec.Big().Cmp(sum) != 0 {
			return pbt.Failf("add-not-integer-sum", fmt.Sprintf("Dec(Enc(a)+Enc(b)) = %s, a+b = %s", dec.Big(), sum))
		}
		if dec.Big().Cmp(k.ref.Sym(sum)) != 0 {
			return pbt.Failf("add-wrap", "sum outside the range does not wrap to the symmetric representative")
		}
	case "mul":
		s := c.K.val(k.ref)
		got := ca.Clone().Mul(pk, sint(s))
		if f := operands(); f != nil {
			return f
		}
		want := k.ref.Mul(ra, s)
		if want == nil {
			return nil
		}
		if got.Nat().Big().Cmp(want) != 0 {
			return pbt.Failf("mul-mismatch", fmt.Sprintf("Mul by %s differs from ciphertext exponentiation mod N^2", c.K.class()))
		}
		dec, err := k.sk.Dec(got)
		if err != nil {
			return pbt.Failf("dec-error", err.Error())
		}
		prod := new(big.Int).Mul(a, s)
		if k.ref.InRange(prod) && dec.Big().Cmp(prod) != 0 {
			return pbt.Failf("mul-not-integer-product", fmt.Sprintf("Dec(k*Enc(a)) = %s, k*a = %s", dec.Big(), prod))
		}
		if dec.Big().Cmp(k.ref.Sym(prod)) != 0 {
			return pbt.Failf("mul-wrap", "product outside the range does not wrap to the symmetric representative")
		}
	}
	return nil
}

var homProp = pbt.Define(pbt.Prop[homCase]{Kind: "paillier-hom", Run: homRun, Class: func(c homCase) (string, bool) {
	return fmt.Sprintf("%s|plainkey=%v|a=%s|b=%s|k=%s", c.Op, c.Plain, c.A.class(), c.B.class(), c.K.class()), c.A.Base != "rand" || c.B.Base != "rand" || c.K.Base != "rand"
}})

func TestHomomorphic(t *testing.T) {
	rapid.Check(t, func(rt *rapid.T) {
		c := homCase{Key: rapid.IntRange(0, 5).Draw(rt, "key"), Plain: rapid.Bool().Draw(rt, "plain"), Op: rapid.SampledFrom([]string{"add", "mul"}).Draw(rt, "op")}
		c.A, c.B = genPlain(rt, "a"), genPlain(rt, "b")
		c.K = genPlain(rt, "k")
		if c.K.Base == "half" || c.K.Base == "pow2" && c.K.K > 300 {
			c.K = Num{Base: "pow2", K: rapid.SampledFrom([]int{1, 8, 255, 256}).Draw(rt, "kk"), Off: -1, Neg: c.K.Neg}
		}
		homProp.One(rt, c)
	})
}

// ---- ciphertext validation

type valCase struct {
	Key   int
	Plain bool
	C     Num
}

func valRun(c valCase) *pbt.Fail {
	k := getKey(c.Key)
	pk := k.fast
	if c.Plain {
		pk = k.plain
	}
	x := c.C.val(k.ref)
	if x.Sign() < 0 {
		x.Neg(x)
	}
	got := pk.ValidateCiphertexts(ct(x))
	want := k.ref.ValidCiphertext(x)
	if got != want {
		return pbt.Failf("validate-mismatch:"+c.C.class(), fmt.Sprintf("ValidateCiphertexts(%s) = %v, expected %v", c.C.class(), got, want))
	}
	if !want {
		if _, err := k.sk.Dec(ct(x)); err == nil {
			return pbt.Failf("dec-accepts-invalid:"+c.C.class(), "Dec accepts a ciphertext that validation rejects")
		}
	}
	if pk.ValidateCiphertexts(nil) {
		return pbt.Failf("validate-nil", "nil ciphertext accepted")
	}
	return nil
}

var valProp = pbt.Define(pbt.Prop[valCase]{Kind: "paillier-validate", Run: valRun, Class: func(c valCase) (string, bool) {
	return fmt.Sprintf("validate|plainkey=%v|c=%s", c.Plain, c.C.class()), c.C.Base != "rand"
}})

func TestValidate(t *testing.T) {
	rapid.Check(t, func(rt *rapid.T) {
		n := Num{Base: rapid.SampledFrom([]string{"0", "N", "N2", "p", "q", "rand"}).Draw(rt, "base")}
		n.Off = int64(rapid.IntRange(-2, 2).Draw(rt, "off"))
		if n.Base == "p" || n.Base == "q" {
			n.K, n.Off = rapid.IntRange(0, 6).Draw(rt, "k"), 0
		}
		if n.Base == "rand" {
			n.Rand = conv.Hex(rapid.SliceOfN(rapid.Byte(), 100, 512).Draw(rt, "rand"))
			n.Off = 0
		}
		valProp.One(rt, valCase{Key: rapid.IntRange(0, 5).Draw(rt, "key"), Plain: rapid.Bool().Draw(rt, "plain"), C: n})
	})
}

// ---- MtA

type mtaCase struct {
	Sender, Receiver int
	A, B             string // scalars: "0","1","2","q-1","q-2","pow2:K","rand:hex"
	Variant          string // affg / affp
	Seed             uint64
}

func scalarOf(s string) *big.Int {
	switch {
	case s == "q-1":
		return new(big.Int).Sub(ref.N, big.NewInt(1))
	case s == "q-2":
		return new(big.Int).Sub(ref.N, big.NewInt(2))
	case len(s) > 5 && s[:5] == "pow2:":
		var k int
		fmt.Sscanf(s[5:], "%d", &k)
		return new(big.Int).Lsh(big.NewInt(1), uint(k))
	case len(s) > 5 && s[:5] == "rand:":
		return new(big.Int).Mod(conv.BigHex(s[5:]), ref.N)
	}
	x, _ := new(big.Int).SetString(s, 10)
	return x
}

func scalarClass(s string) string {
	if len(s) > 5 && s[:5] == "rand:" {
		return "rand"
	}
	return s
}

func mtaRun(c mtaCase) *pbt.Fail {
	mux := tape.Install(c.Seed)
	defer mux.Uninstall()
	g := curve.Secp256k1{}
	snd, rcv := getKey(c.Sender), getKey(c.Receiver)
	a, b := scalarOf(c.A), scalarOf(c.B)
	aS := conv.Scalar(a)
	aInt := curve.MakeInt(aS)
	B, _ := rcv.plain.Enc(curve.MakeInt(conv.Scalar(b)))
	var beta *saferith.Int
	var D, F *paillier.Ciphertext
	ok := true
	switch c.Variant {
	case "affg":
		var proof *zkaffg.Proof
		A := aS.ActOnBase()
		beta, D, F, proof = mta.ProveAffG(g, hash.New(), aInt, A, B, snd.sk, rcv.plain, rcv.ped)
		ok = proof.Verify(hash.New(), zkaffg.Public{Kv: B, Dv: D, Fp: F, Xp: A, Prover: snd.plain, Verifier: rcv.plain, Aux: rcv.ped})
	default:
		var proof *zkaffp.Proof
		X, nonce := snd.fast.Enc(aInt)
		beta, D, F, proof = mta.ProveAffP(g, hash.New(), aInt, X, nonce, B, snd.sk, rcv.plain, rcv.ped)
		ok = proof.Verify(g, hash.New(), zkaffp.Public{Kv: B, Dv: D, Fp: F, Xp: X, Prover: snd.plain, Verifier: rcv.plain, Aux: rcv.ped})
	}
	if !ok {
		return pbt.Failf("mta-proof-rejected:"+c.Variant, "the proof returned by the MtA helper does not verify")
	}
	// receiver's share, decrypted with the independent implementation
	alpha := rcv.ref.Dec(D.Nat().Big())
	sum := new(big.Int).Add(alpha, beta.Big())
	prod := new(big.Int).Mul(a, b)
	if sum.Cmp(prod) != 0 {
		return pbt.Failf("mta-shares:"+c.Variant, fmt.Sprintf("alpha + beta = %s but a*b = %s (a=%s b=%s)", sum, prod, scalarClass(c.A), scalarClass(c.B)))
	}
	libAlpha, err := rcv.sk.Dec(D)
	if err != nil || libAlpha.Big().Cmp(alpha) != 0 {
		return pbt.Failf("mta-dec-differential", "library and reference decrypt D differently")
	}
	if f := snd.ref.Dec(F.Nat().Big()); f.Cmp(new(big.Int).Neg(beta.Big())) != 0 {
		return pbt.Failf("mta-F:"+c.Variant, "F does not encrypt -beta under the sender's key")
	}
	return nil
}

var mtaProp = pbt.Define(pbt.Prop[mtaCase]{Kind: "mta", Run: mtaRun, Class: func(c mtaCase) (string, bool) {
	return fmt.Sprintf("mta|%s|a=%s|b=%s", c.Variant, scalarClass(c.A), scalarClass(c.B)), scalarClass(c.A) != "rand" || scalarClass(c.B) != "rand"
}})

func genScalar(t *rapid.T, l string) string {
	k := rapid.SampledFrom([]string{"0", "1", "2", "q-1", "q-2", "pow2", "rand", "rand"}).Draw(t, l+"Kind")
	switch k {
	case "pow2":
		return fmt.Sprintf("pow2:%d", rapid.SampledFrom([]int{8, 64, 128, 255}).Draw(t, l+"K"))
	case "rand":
		return "rand:" + conv.Hex(rapid.SliceOfN(rapid.Byte(), 32, 32).Draw(t, l))
	}
	return k
}

func TestMtA(t *testing.T) {
	rapid.Check(t, func(rt *rapid.T) {
		s := rapid.IntRange(0, 5).Draw(rt, "sender")
		r := (s + 1 + rapid.IntRange(0, 4).Draw(rt, "receiver")) % 6
		mtaProp.One(rt, mtaCase{Sender: s, Receiver: r, A: genScalar(rt, "a"), B: genScalar(rt, "b"),
			Variant: rapid.SampledFrom([]string{"affg", "affp"}).Draw(rt, "variant"), Seed: rapid.Uint64Range(1, 1<<40).Draw(rt, "seed")})
	})
}

var _ = ev.Get
