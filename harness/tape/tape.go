// Package tape replaces crypto/rand.Reader by deterministic per-party byte streams, so that a
// protocol session becomes a pure function of (case seed, schedule).
package tape

import (
	"crypto/rand"
	"encoding/binary"
	"io"
	"sync"

	"github.com/zeebo/blake3"
)

// Stream is one party's randomness. It can be forked: after ForkAt bytes it continues with a
// different stream (used to build an equivocating twin that shares a prefix with the original).
type Stream struct {
	r      io.Reader
	alt    io.Reader
	Pos    int64
	ForkAt int64 // <0: never
}

func xof(seed uint64, label string, epoch uint64) io.Reader {
	h := blake3.New()
	var b [16]byte
	binary.BigEndian.PutUint64(b[:8], seed)
	binary.BigEndian.PutUint64(b[8:], epoch)
	_, _ = h.Write(b[:])
	_, _ = h.Write([]byte(label))
	return h.Digest()
}

func NewStream(seed uint64, label string, epoch uint64) *Stream {
	return &Stream{r: xof(seed, label, epoch), ForkAt: -1}
}

// NewForked returns a stream equal to NewStream(seed,label,epoch) for the first forkAt bytes and
// different afterwards.
func NewForked(seed uint64, label string, epoch uint64, forkAt int64, altEpoch uint64) *Stream {
	return &Stream{r: xof(seed, label, epoch), alt: xof(seed, label+"/fork", altEpoch), ForkAt: forkAt}
}

func (s *Stream) Read(p []byte) (int, error) {
	n := 0
	for n < len(p) {
		if s.ForkAt >= 0 && s.Pos >= s.ForkAt {
			k, _ := s.alt.Read(p[n:])
			n += k
			s.Pos += int64(k)
			continue
		}
		end := len(p)
		if s.ForkAt >= 0 && s.Pos+int64(end-n) > s.ForkAt {
			end = n + int(s.ForkAt-s.Pos)
		}
		k, _ := s.r.Read(p[n:end])
		n += k
		s.Pos += int64(k)
	}
	return n, nil
}

// Mux is installed as crypto/rand.Reader and serves the stream of the party currently executing.
type Mux struct {
	mu      sync.Mutex
	seed    uint64
	streams map[string]*Stream
	cur     *Stream
	curName string
	prev    io.Reader
}

// Install replaces crypto/rand.Reader. Call Uninstall when the case is over.
func Install(seed uint64) *Mux {
	m := &Mux{seed: seed, streams: map[string]*Stream{}, prev: rand.Reader}
	m.Use("_default")
	rand.Reader = m
	return m
}

func (m *Mux) Uninstall() { rand.Reader = m.prev }

// Use selects (creating on first use) the stream named name.
func (m *Mux) Use(name string) {
	m.mu.Lock()
	defer m.mu.Unlock()
	s, ok := m.streams[name]
	if !ok {
		s = NewStream(m.seed, name, 0)
		m.streams[name] = s
	}
	m.cur, m.curName = s, name
}

// Set installs an explicit stream under name (e.g. a forked one).
func (m *Mux) Set(name string, s *Stream) {
	m.mu.Lock()
	m.streams[name] = s
	m.mu.Unlock()
}

// Pos returns the number of bytes the named stream has served.
func (m *Mux) Pos(name string) int64 {
	m.mu.Lock()
	defer m.mu.Unlock()
	if s, ok := m.streams[name]; ok {
		return s.Pos
	}
	return 0
}

func (m *Mux) Current() string {
	m.mu.Lock()
	defer m.mu.Unlock()
	return m.curName
}

func (m *Mux) Read(p []byte) (int, error) {
	m.mu.Lock()
	defer m.mu.Unlock()
	return m.cur.Read(p)
}

// Const is a broken random source returning the same byte forever.
type Const byte

func (c Const) Read(p []byte) (int, error) {
	for i := range p {
		p[i] = byte(c)
	}
	return len(p), nil
}

// Repeating is a broken random source that restarts the same short pattern on every Reset.
type Repeating struct {
	Pattern []byte
	i       int
}

func (r *Repeating) Read(p []byte) (int, error) {
	for i := range p {
		p[i] = r.Pattern[r.i%len(r.Pattern)]
		r.i++
	}
	return len(p), nil
}
func (r *Repeating) Reset() { r.i = 0 }

// With installs an arbitrary reader as crypto/rand.Reader for the duration of f.
func With(r io.Reader, f func()) {
	prev := rand.Reader
	rand.Reader = r
	defer func() { rand.Reader = prev }()
	f()
}
