package c09

import (
	"bytes"
	"encoding/json"
	"errors"
	"fmt"
	"os"
	"path/filepath"
	"sort"
	"strings"
	"testing"

	"github.com/taurusgroup/multi-party-sig/pkg/ecdsa"
	"github.com/taurusgroup/multi-party-sig/pkg/party"
	"github.com/taurusgroup/multi-party-sig/verifharness/adv"
	"github.com/taurusgroup/multi-party-sig/verifharness/advrun"
	"github.com/taurusgroup/multi-party-sig/verifharness/ev"
	"github.com/taurusgroup/multi-party-sig/verifharness/fix"
	"github.com/taurusgroup/multi-party-sig/verifharness/pbt"
	"github.com/taurusgroup/multi-party-sig/verifharness/proto"
	"github.com/taurusgroup/multi-party-sig/verifharness/sim"
	"github.com/taurusgroup/multi-party-sig/verifharness/tape"
	"pgregory.net/rapid"
)

func TestMain(m *testing.M)   { pbt.Main(m) }
func TestReplay(t *testing.T) { pbt.Replay(t) }
func TestCorpus(t *testing.T) { pbt.Corpus(t) }

// Spec is the tuple of parameters a session is started with.
type Spec struct {
	Proto   string
	SID     string // session id: "nil", "empty" or hex bytes
	Family  string // identifier family
	IDPick  int
	N, T    int
	Signers []int  // indices (signing protocols); nil = all
	Perm    int    // rotation applied to the order in which identifiers are passed
	Key     string // base, derived, other (different key), samekey-otherdeal is not expressible with the dealer
	Pre     int    // which presignature (0 or 1)
	Msg     string
}

func sidBytes(s string) []byte {
	switch s {
	case "nil":
		return nil
	case "empty":
		return []byte{}
	}
	return []byte(s)
}

var matCache = map[string]*proto.Material{}
var preCache = map[string]map[party.ID]*ecdsa.PreSignature{}

func scheme(p string) string {
	switch {
	case strings.HasPrefix(p, "cmp-"):
		return proto.SchemeCMP
	case strings.HasSuffix(p, "-taproot"):
		return proto.SchemeFrostTap
	case strings.HasPrefix(p, "frost-"):
		return proto.SchemeFrost
	case p == proto.Toy || p == proto.XOR:
		return "none"
	}
	return proto.SchemeDoerner
}

func isKeygen(p string) bool {
	return p == proto.CMPKeygen || p == proto.FrostKeygen || p == proto.FrostKeygenTap || p == proto.DoernerKeygen || p == proto.XOR
}

func material(s Spec) (*proto.Material, error) {
	sch := scheme(s.Proto)
	ids := fix.IDs(s.Family, s.N, s.IDPick)
	seed := uint64(500)
	if s.Key == "other" {
		seed = 501
	}
	key := fmt.Sprintf("%s/%s/%d/%d/%d/%d/%s", sch, s.Family, s.IDPick, s.N, s.T, seed, s.Key)
	if m, ok := matCache[key]; ok {
		return m.Clone(), nil
	}
	var m *proto.Material
	var err error
	if sch == proto.SchemeDoerner {
		m, err = proto.Keygen(sch, seed, ids[:2], 1, sim.FIFO)
	} else {
		m, err = proto.Deal(sch, seed, ids, s.T)
	}
	if err == nil && s.Key == "derived" {
		m, err = m.Derive(7)
	}
	if err != nil {
		return nil, err
	}
	matCache[key] = m
	return m.Clone(), nil
}

func rotate(ids []party.ID, k int) []party.ID {
	if len(ids) == 0 {
		return ids
	}
	k %= len(ids)
	return append(append([]party.ID{}, ids[k:]...), ids[:k]...)
}

// session builds the session of a spec.
func session(s Spec) (*proto.Session, error) {
	ids := fix.IDs(s.Family, s.N, s.IDPick)
	if s.Family == "wide" {
		// more parties than any pool holds (key generation only): thresholds beyond one byte become expressible
		ids = nil
		for i := 0; i < s.N; i++ {
			ids = append(ids, party.ID(fmt.Sprintf("w%04d", i+s.IDPick)))
		}
	}
	sid := sidBytes(s.SID)
	msg := []byte(s.Msg)
	if isKeygen(s.Proto) {
		if s.Proto == proto.DoernerKeygen {
			return &proto.Session{Proto: s.Proto, SessionID: sid, IDs: ids[:2], T: 1}, nil
		}
		return &proto.Session{Proto: s.Proto, SessionID: sid, IDs: rotate(fix.SortedIDs(ids), s.Perm), T: s.T}, nil
	}
	m, err := material(s)
	if err != nil {
		return nil, err
	}
	switch s.Proto {
	case proto.CMPRefresh, proto.FrostRefresh, proto.FrostRefreshTap, proto.DoernerRefresh:
		sess := m.RefreshSession(sid)
		if m.Scheme != proto.SchemeDoerner {
			sess.IDs = rotate(sess.IDs, s.Perm)
		}
		return sess, nil
	}
	signers := m.IDs
	if s.Signers != nil && m.Scheme != proto.SchemeDoerner {
		signers = nil
		for _, i := range s.Signers {
			signers = append(signers, m.IDs[i%len(m.IDs)])
		}
	}
	if m.Scheme != proto.SchemeDoerner {
		signers = rotate(fix.SortedIDs(signers), s.Perm)
	}
	sess := &proto.Session{Proto: s.Proto, SessionID: sid, IDs: signers, T: m.T, Msg: msg, CMP: m.CMP, Frost: m.Frost, FrostTap: m.FrostTap, DoernerR: m.DoernerR, DoernerS: m.DoernerS}
	if s.Proto == proto.CMPPresign {
		sess.Msg = nil
	}
	if s.Proto == proto.CMPPresignOnline {
		k := fmt.Sprintf("%s/%d/%d/%s/%d", s.Family, s.N, s.T, s.Key, s.Pre)
		pre, ok := preCache[k]
		if !ok {
			res, _, err := proto.RunHonest(m.SignSession(proto.CMPPresign, m.IDs, nil, []byte("c09-pre")), 600+uint64(s.Pre), sim.FIFO)
			if err != nil {
				return nil, err
			}
			if pre, err = proto.PreSignatures(res); err != nil {
				return nil, err
			}
			preCache[k] = pre
		}
		sess.IDs = m.IDs
		sess.Pre = pre
	}
	return sess, nil
}

// tag returns the session tag party `who` computes, read from its first round.
func tag(s Spec, who int) (ssid []byte, protocolID string, err error) {
	sess, err := session(s)
	if err != nil {
		return nil, "", err
	}
	order := sess.Order()
	id := order[who%len(order)]
	defer tape.Install(1).Uninstall()
	f, err := sess.StartFunc(id)
	if err != nil {
		return nil, "", err
	}
	r, err := f(sess.SessionID)
	if err != nil {
		return nil, "", fmt.Errorf("start refused: %w", err)
	}
	return r.SSID(), r.ProtocolID(), nil
}

// class of a protocol: the two Doerner roles of one protocol share a session by design.
func protoClass(p string) string { return p }

// ---- (a) tag injectivity

type tagCase struct {
	X, Y   Spec
	Differ string // the one component in which Y differs from X; "none" / "permutation" expect equal tags
	Who    int
}

func tagRun(c tagCase) *pbt.Fail {
	sx, px, err := tag(c.X, c.Who)
	if err != nil {
		return nil // the start function refuses this tuple: nothing to compare
	}
	sy, py, err := tag(c.Y, c.Who)
	if err != nil {
		return nil
	}
	same := bytes.Equal(sx, sy) && px == py
	wantSame := c.Differ == "none" || c.Differ == "permutation"
	if len(sx) == 0 || len(sy) == 0 {
		return pbt.Failf("empty-tag", "a session has an empty tag")
	}
	if wantSame && !same {
		return pbt.Failf("tags-differ-for-equal-parameters:"+c.Differ, fmt.Sprintf("%s: the same parameter set gives different session tags (%s)", c.X.Proto, c.Differ))
	}
	if !wantSame && same {
		return pbt.Failf(fmt.Sprintf("tag-collision:%s:%s-vs-%s", c.Differ, c.X.Proto, c.Y.Proto),
			fmt.Sprintf("sessions differing in %s have the same tag and protocol id %q (X=%+v Y=%+v)", c.Differ, px, c.X, c.Y))
	}
	return nil
}

var tagProp = pbt.Define(pbt.Prop[tagCase]{Kind: "session-tags", Run: tagRun, Class: func(c tagCase) (string, bool) {
	return fmt.Sprintf("tag|%s|%s-vs-%s|%s", c.Differ, c.X.Proto, c.Y.Proto, c.X.Family), c.Differ != "none"
}})

var allProtos = []string{proto.CMPKeygen, proto.CMPRefresh, proto.CMPSign, proto.CMPPresign, proto.CMPPresignFull, proto.CMPPresignOnline,
	proto.FrostKeygen, proto.FrostKeygenTap, proto.FrostRefresh, proto.FrostRefreshTap, proto.FrostSign, proto.FrostSignTap,
	proto.DoernerKeygen, proto.DoernerRefresh, proto.DoernerSign}

// sids: session identifiers of any length are admitted by every start function. Besides short ones: one that is another
// plus a trailing NUL, a lone NUL (versus empty), and long ones that agree on their first 32 / 64 bytes.
var sids = []string{"nil", "empty", "s", "session", "session2", "session\x00", "\x00",
	"wallet-7f3a/keygen/2026-09-26/run-0001", "wallet-7f3a/keygen/2026-09-26/run-0002",
	strings.Repeat("0123456789abcdef", 4) + "A", strings.Repeat("0123456789abcdef", 4) + "B", strings.Repeat("0123456789abcdef", 4), "sessio"}

func genSpec(t *rapid.T, protos []string) Spec {
	s := Spec{Proto: rapid.SampledFrom(protos).Draw(t, "proto")}
	s.SID = rapid.SampledFrom(sids[:len(sids)-1]).Draw(t, "sid")
	s.Family = rapid.SampledFrom([]string{"letters", "prefix", "concat", "near1", "nonascii", "long", "padding"}).Draw(t, "family")
	s.IDPick = rapid.IntRange(0, 7).Draw(t, "idpick")
	s.N = rapid.IntRange(2, 4).Draw(t, "n")
	s.T = rapid.IntRange(0, s.N-1).Draw(t, "t")
	if scheme(s.Proto) == proto.SchemeDoerner {
		s.N, s.T = 2, 1
	}
	if scheme(s.Proto) == proto.SchemeCMP && s.N > 3 {
		s.N = 3
		s.T = s.T % 3
	}
	s.Key = "base"
	s.Msg = rapid.SampledFrom([]string{"m", "message one", "message two"}).Draw(t, "msg")
	return s
}

// vary changes exactly one component of s (returns ok=false if the component does not apply).
func sameSet(a, b []party.ID) bool {
	if len(a) != len(b) {
		return false
	}
	m := map[party.ID]bool{}
	for _, x := range a {
		m[x] = true
	}
	for _, x := range b {
		if !m[x] {
			return false
		}
	}
	return true
}

func vary(t *rapid.T, s Spec, what string) (y Spec, ok bool) {
	y = s
	ok = true
	switch what {
	case "none":
	case "session-id":
		y.SID = rapid.SampledFrom(sids).Filter(func(x string) bool { return x != s.SID }).Draw(t, "sid2")
	case "protocol":
		var same []string
		for _, p := range allProtos {
			if scheme(p) == scheme(s.Proto) && p != s.Proto {
				same = append(same, p)
			}
		}
		y.Proto = rapid.SampledFrom(same).Draw(t, "proto2")
	case "participants":
		defer func() {
			// the two identifier selections must really be different sets
			if ok && y.IDPick != s.IDPick && sameSet(fix.IDs(s.Family, s.N, s.IDPick), fix.IDs(y.Family, y.N, y.IDPick)) {
				ok = false
			}
		}()
		if scheme(s.Proto) == proto.SchemeDoerner {
			y.IDPick = (s.IDPick + 1 + rapid.IntRange(0, 5).Draw(t, "idpick2")) % 8
		} else if isKeygen(s.Proto) || !strings.Contains(s.Proto, "sign") && !strings.Contains(s.Proto, "presign") {
			y.IDPick = (s.IDPick + 1 + rapid.IntRange(0, 5).Draw(t, "idpick2")) % 8
			if s.Proto != proto.CMPKeygen && s.Proto != proto.FrostKeygen && s.Proto != proto.FrostKeygenTap {
				return y, false // a refresh of other identifiers needs other key material: that is the "key material" variation
			}
		} else {
			// signing: another signer subset of the same shareholders
			if s.N <= s.T+1 {
				return y, false
			}
			y.Signers = []int{}
			drop := rapid.IntRange(0, s.N-1).Draw(t, "drop")
			for i := 0; i < s.N; i++ {
				if i != drop {
					y.Signers = append(y.Signers, i)
				}
			}
			if s.Proto == proto.CMPPresignOnline {
				return y, false // the signer set of the online phase is fixed by the presignature
			}
		}
	case "permutation":
		if scheme(s.Proto) == proto.SchemeDoerner || s.Proto == proto.CMPPresignOnline || s.Proto == proto.CMPRefresh {
			return y, false
		}
		y.Perm = 1 + rapid.IntRange(0, 2).Draw(t, "perm")
	case "threshold":
		if !isKeygen(s.Proto) || scheme(s.Proto) == proto.SchemeDoerner || s.N < 2 {
			return y, false
		}
		y.T = (s.T + 1) % s.N
	case "key-material":
		if isKeygen(s.Proto) {
			return y, false
		}
		y.Key = rapid.SampledFrom([]string{"derived", "other"}).Draw(t, "key2")
	case "presignature":
		if s.Proto != proto.CMPPresignOnline {
			return y, false
		}
		y.Pre = 1
	case "message":
		if isKeygen(s.Proto) || strings.Contains(s.Proto, "refresh") || s.Proto == proto.CMPPresign {
			return y, false
		}
		y.Msg = s.Msg + "!"
	}
	return y, ok
}

var variations = []string{"none", "session-id", "protocol", "participants", "permutation", "threshold", "key-material", "presignature", "message"}

// requires tells whether the statement demands different tags for this variation of this protocol.
func requires(p, what string) bool {
	switch what {
	case "key-material", "presignature", "message":
		// the statement lists these for CMP refresh, sign and presign only
		return scheme(p) == proto.SchemeCMP
	}
	return true
}

func TestTags(t *testing.T) {
	rapid.Check(t, func(rt *rapid.T) {
		x := genSpec(rt, allProtos)
		what := rapid.SampledFrom(variations).Draw(rt, "vary")
		y, ok := vary(rt, x, what)
		if !ok || !requires(x.Proto, what) {
			return
		}
		tagProp.One(rt, tagCase{X: x, Y: y, Differ: what, Who: rapid.IntRange(0, 3).Draw(rt, "who")})
	})
}

// TestTagsWide: key generation sessions of MANY parties whose thresholds differ by a multiple of 256 (and by one, as a
// control) must have different tags: the threshold is an int everywhere, nothing bounds it by a byte.
func TestTagsWide(t *testing.T) {
	rec := ev.Get()
	i := 0
	for _, p := range []string{proto.FrostKeygen, proto.FrostKeygenTap, proto.CMPKeygen} {
		for _, c := range [][3]int{{258, 1, 257}, {258, 0, 256}, {300, 2, 258}, {300, 3, 4}, {600, 5, 517}} {
			i++
			if !rec.Mine(i) {
				continue
			}
			x := Spec{Proto: p, SID: "session", Family: "wide", N: c[0], T: c[1], Key: "base", Msg: "m"}
			y := x
			y.T = c[2]
			tagProp.One(t, tagCase{X: x, Y: y, Differ: "threshold", Who: i})
		}
	}
}

// ---- (b) cross-session replay

type replayCase struct {
	X, Y   Spec // A = session X (recorded), B = session Y (the victim session)
	Differ string
	Seed   uint64
}

func runSession(s Spec, seed uint64, onStep func(n *sim.Net) *pbt.Fail) (*sim.Net, *pbt.Fail) {
	sess, err := session(s)
	if err != nil {
		return nil, pbt.Failf("skip", err.Error())
	}
	mux := tape.Install(seed)
	defer mux.Uninstall()
	if s.Proto == proto.CMPKeygen || s.Proto == proto.CMPRefresh {
		defer fix.InstallPrimeSource(int(seed % 31))()
	}
	n := sim.New(mux)
	if err := sess.AddAll(n); err != nil {
		return nil, pbt.Failf("skip", err.Error())
	}
	for len(n.Pending) > 0 {
		if onStep != nil {
			if f := onStep(n); f != nil {
				return n, f
			}
		}
		if err := n.Step(0, false); err != nil {
			var pe *sim.PanicError
			if errors.As(err, &pe) {
				return n, pbt.Failf("panic:"+ev.PanicSite(pe.Stack), pe.Error()+"\n"+pe.Stack)
			}
			return n, pbt.Failf("inconclusive:run", err.Error())
		}
	}
	return n, nil
}

func resultsOf(n *sim.Net) map[string][]byte {
	out := map[string][]byte{}
	for _, p := range n.Parties {
		o := p.Outcome()
		if o.Finished {
			b, _ := proto.ResultBytes(o.Value)
			out[p.Name] = append([]byte("ok:"), b...)
		} else if o.Err != nil {
			out[p.Name] = []byte("err:" + o.Err.Error())
		}
	}
	return out
}

func replayRun(c replayCase) *pbt.Fail {
	// A: recorded foreign session
	an, f := runSession(c.X, c.Seed+1, nil)
	if f != nil {
		if f.Sig == "skip" {
			return nil
		}
		return f
	}
	var foreign []*sim.Msg
	for _, p := range an.Parties {
		foreign = append(foreign, p.Sent...)
	}
	// plus the abort notice each party of A would send if its session failed (round number 0, A's session tag)
	seenFrom := map[string]bool{}
	for _, m := range append([]*sim.Msg{}, foreign...) {
		if m.RoundNumber == 0 || seenFrom[string(m.From)] {
			continue
		}
		seenFrom[string(m.From)] = true
		foreign = append(foreign, &sim.Msg{SSID: append([]byte{}, m.SSID...), From: m.From, Protocol: m.Protocol, Data: []byte("aborted by user")})
	}
	// B's baseline
	bn, f := runSession(c.Y, c.Seed, nil)
	if f != nil {
		if f.Sig == "skip" {
			return nil
		}
		return f
	}
	base := resultsOf(bn)
	offered, accepted := 0, 0
	// B again, with every message of A offered to every party of B before every step
	n, f := runSession(c.Y, c.Seed, func(n *sim.Net) *pbt.Fail {
		for _, m := range foreign {
			for _, p := range n.Parties {
				if !m.IsFor(p.ID) {
					continue
				}
				offered++
				mm := sim.Clone(m)
				n.Tape.Use(p.Name)
				if p.H.CanAccept(mm) {
					accepted++
					return pbt.Failf(fmt.Sprintf("foreign-message-accepted:%s:%s-into-%s", c.Differ, c.X.Proto, c.Y.Proto),
						fmt.Sprintf("party %q of session B (%s) says CanAccept for a round-%d message of session A (%s), the sessions differ in %s", p.Name, c.Y.Proto, m.RoundNumber, c.X.Proto, c.Differ))
				}
				// delivering it anyway must change nothing
				if out, err := n.Call(p, "Accept", func() { p.H.Accept(mm) }); err != nil {
					return pbt.Failf("panic:forced-foreign-accept", err.Error())
				} else if len(out) > 0 {
					return pbt.Failf("foreign-message-has-effect:"+c.Differ, fmt.Sprintf("party %q emitted %d messages after being handed a foreign message", p.Name, len(out)))
				}
			}
		}
		return nil
	})
	if f != nil {
		if f.Sig == "skip" {
			return nil
		}
		return f
	}
	got := resultsOf(n)
	for name, b := range base {
		if !bytes.Equal(got[name], b) {
			return pbt.Failf("foreign-messages-change-outcome:"+c.Differ, fmt.Sprintf("party %q of session B ends differently when session A's messages are replayed into it", name))
		}
	}
	ev.Get().Count("foreign_messages_offered", int64(offered))
	return nil
}

var replayProp = pbt.Define(pbt.Prop[replayCase]{Kind: "cross-session-replay", Run: replayRun, Journal: true, Class: func(c replayCase) (string, bool) {
	return fmt.Sprintf("replay|%s|%s-into-%s", c.Differ, c.X.Proto, c.Y.Proto), true
}})

func genReplay(t *rapid.T, protos []string) (replayCase, bool) {
	y := genSpec(t, protos)
	what := rapid.SampledFrom(variations[1:]).Draw(t, "vary")
	x, ok := vary(t, y, what)
	if !ok || !requires(y.Proto, what) || what == "permutation" {
		return replayCase{}, false
	}
	return replayCase{X: x, Y: y, Differ: what, Seed: rapid.Uint64Range(1, 1000).Draw(t, "seed")}, true
}

func TestReplayCheap(t *testing.T) {
	rapid.Check(t, func(rt *rapid.T) {
		if c, ok := genReplay(rt, allProtos[6:]); ok {
			replayProp.One(rt, c)
		}
	})
}

func TestReplayCMP(t *testing.T) {
	rapid.Check(t, func(rt *rapid.T) {
		if c, ok := genReplay(rt, []string{proto.CMPSign, proto.CMPPresign, proto.CMPPresignOnline, proto.CMPPresignFull}); ok {
			if c.Differ == "participants" {
				// another signer subset only exists when there are more shareholders than signers: 3 shareholders, the two
				// sessions are run by two different pairs (forcing n=2 here would make the two "different" sets coincide)
				c.X.N, c.Y.N = 3, 3
				c.X.T, c.Y.T = 1, 1
				c.Y.Signers = []int{0, 1}
				c.X.Signers = []int{0, 2}
			} else {
				c.X.N, c.Y.N = 2, 2
				c.X.T, c.Y.T = 1, 1
				c.X.Signers, c.Y.Signers = nil, nil
			}
			replayProp.One(rt, c)
		}
	})
}

// ---- (c) impersonated replay inside one session: the cheater re-sends an honest party's message as its own

type impCase struct {
	Setup   advrun.Setup
	Cheater int
	Round   int
	Bcast   bool
	Drop    bool
	Sched   []int
}

var lastImp string

func impRun(c impCase) *pbt.Fail {
	lastImp = "not-applied"
	tm := adv.Tamper{Round: c.Round, Broadcast: c.Bcast, Kind: "substitute-other-sender"}
	rep, err := advrun.Run(advrun.Case{Setup: c.Setup, Cheater: c.Cheater, Tamper: &tm, DropAbort: c.Drop, Sched: c.Sched})
	if err != nil {
		var pe *sim.PanicError
		if errors.As(err, &pe) {
			return pbt.Failf("panic:"+ev.PanicSite(pe.Stack), pe.Error()+"\n"+pe.Stack)
		}
		return pbt.Failf("inconclusive:run", err.Error())
	}
	if rep.Applied == nil || rep.Applied.Count == 0 {
		return nil
	}
	lastImp = fmt.Sprintf("r%d|bc=%v|%s", c.Round, c.Bcast, rep.Summary())
	if sig, d := rep.WrongResult(); sig != "" {
		return pbt.Failf("impersonation:"+sig, d)
	}
	if sig, d := rep.UnsoundBlame(); sig != "" {
		return pbt.Failf("impersonation:"+sig, d)
	}
	// a proof or commitment made by one party must not verify for another: where the copied message carries something bound
	// to its sender (catalogue/imp.json: the message kinds for which, on the repaired tree, the copy is rejected in the very
	// round it belongs to, for every position of the cheater), some honest party must reject it THERE and name the cheater;
	// a rejection that only happens later, through an unrelated check, means the binding is gone
	if impCatalogue()[impKey(c)] {
		ok := false
		for _, id := range rep.Honest {
			o := rep.Outcome[id]
			if rep.BlamesExactly(id) && o.Err != nil && strings.Contains(o.Err.Error(), fmt.Sprintf("round %d:", c.Round)) {
				ok = true
			}
		}
		if !ok {
			return pbt.Failf("impersonation:copy-not-rejected-in-its-round:"+c.Setup.Proto, fmt.Sprintf("%q re-sent an honest party's round-%d message (broadcast=%v) under its own name and no honest party rejected it in that round naming the sender: %s", rep.Cheater, c.Round, c.Bcast, rep.Summary()))
		}
	}
	return nil
}

func impKey(c impCase) string { return fmt.Sprintf("%s|%d|%v", c.Setup.Proto, c.Round, c.Bcast) }

var impCat map[string]bool

func impCatalogue() map[string]bool {
	if impCat == nil {
		impCat = map[string]bool{}
		b, err := os.ReadFile(filepath.Join(os.Getenv("VERIF_ROOT"), "catalogue", "imp.json"))
		if err == nil {
			var keys []string
			if json.Unmarshal(b, &keys) == nil {
				for _, k := range keys {
					impCat[k] = true
				}
			}
		}
	}
	return impCat
}

// TestGenImpCatalogue is a maintenance entry (not part of any tier): for every message kind it records whether, on the
// current tree, the impersonated copy is rejected in its own round naming the cheater for EVERY cheater position (n=3,
// in-order delivery).
func TestGenImpCatalogue(t *testing.T) {
	out := os.Getenv("VERIF_CATALOGUE_OUT")
	if out == "" {
		t.Skip("maintenance only")
	}
	rec := ev.Get()
	res := map[string]bool{}
	i := 0
	protos := []string{proto.FrostKeygen, proto.FrostKeygenTap, proto.FrostRefresh, proto.FrostSign, proto.FrostSignTap, proto.CMPKeygen, proto.CMPSign, proto.CMPPresign}
	for _, p := range protos {
		for round := 2; round <= 7; round++ {
			for _, bc := range []bool{true, false} {
				i++
				if !rec.Mine(i) {
					continue
				}
				all, applied := true, false
				for cheater := 0; cheater < 3; cheater++ {
					c := impCase{Setup: advrun.Setup{Proto: p, N: 3, T: 2, Seed: 1}, Cheater: cheater, Round: round, Bcast: bc}
					tm := adv.Tamper{Round: c.Round, Broadcast: c.Bcast, Kind: "substitute-other-sender"}
					rep, err := advrun.Run(advrun.Case{Setup: c.Setup, Cheater: c.Cheater, Tamper: &tm})
					if err != nil || rep.Applied == nil || rep.Applied.Count == 0 {
						all = false
						continue
					}
					applied = true
					ok := false
					for _, id := range rep.Honest {
						o := rep.Outcome[id]
						if rep.BlamesExactly(id) && o.Err != nil && strings.Contains(o.Err.Error(), fmt.Sprintf("round %d:", c.Round)) {
							ok = true
						}
					}
					all = all && ok
				}
				if applied && all {
					res[fmt.Sprintf("%s|%d|%v", p, round, bc)] = true
				}
			}
		}
	}
	var keys []string
	for k := range res {
		keys = append(keys, k)
	}
	sort.Strings(keys)
	b, _ := json.MarshalIndent(keys, "", " ")
	_ = os.WriteFile(fmt.Sprintf("%s.%d", out, rec.Shard), b, 0o644)
}

var impProp = pbt.Define(pbt.Prop[impCase]{Kind: "impersonated-replay", Run: impRun, Journal: true, Class: func(c impCase) (string, bool) {
	return fmt.Sprintf("impersonate|%s|n=%d|%s", c.Setup.Proto, c.Setup.N, lastImp), lastImp != "not-applied"
}})

func TestImpersonate(t *testing.T) {
	rapid.Check(t, func(rt *rapid.T) {
		p := rapid.SampledFrom([]string{proto.FrostKeygen, proto.FrostKeygenTap, proto.FrostRefresh, proto.FrostSign, proto.FrostSignTap}).Draw(rt, "proto")
		n := rapid.IntRange(3, 4).Draw(rt, "n")
		c := impCase{Setup: advrun.Setup{Proto: p, N: n, T: n - 1, Seed: rapid.Uint64Range(1, 2).Draw(rt, "seed")}, Cheater: rapid.IntRange(0, n-1).Draw(rt, "cheater"),
			Round: rapid.IntRange(2, 3).Draw(rt, "round"), Bcast: rapid.Bool().Draw(rt, "bcast"), Drop: rapid.Bool().Draw(rt, "drop"),
			Sched: rapid.SliceOfN(rapid.IntRange(0, 4095), 0, 30).Draw(rt, "sched")}
		impProp.One(rt, c)
	})
}

func TestImpersonateCMP(t *testing.T) {
	rapid.Check(t, func(rt *rapid.T) {
		p := rapid.SampledFrom([]string{proto.CMPKeygen, proto.CMPSign, proto.CMPPresign}).Draw(rt, "proto")
		c := impCase{Setup: advrun.Setup{Proto: p, N: 3, T: 2, Seed: 1}, Cheater: rapid.IntRange(0, 2).Draw(rt, "cheater"),
			Round: rapid.IntRange(2, 7).Draw(rt, "round"), Bcast: rapid.Bool().Draw(rt, "bcast"), Drop: rapid.Bool().Draw(rt, "drop")}
		impProp.One(rt, c)
	})
}
