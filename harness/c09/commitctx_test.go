package c09

import (
	"fmt"
	"testing"

	"github.com/taurusgroup/multi-party-sig/pkg/hash"
	"github.com/taurusgroup/multi-party-sig/pkg/party"
	"github.com/taurusgroup/multi-party-sig/verifharness/pbt"
	"github.com/taurusgroup/multi-party-sig/verifharness/tape"
	"pgregory.net/rapid"
)

// A commitment is made under a transcript state that holds the session parameters and (through HashForID) the
// committing party: "a proof or commitment made in one session, or by one party, does not verify in another session or
// for another party". The rounds call state.Commit / state.Decommit exactly like this.

type commitCtx struct {
	Session, Party string
	Extra          bool
}

func (c commitCtx) state() *hash.Hash {
	h := hash.New(&hash.BytesWithDomain{TheDomain: "SSID", Bytes: []byte(c.Session)})
	if c.Party != "" {
		_ = h.WriteAny(party.ID(c.Party))
	}
	if c.Extra {
		_ = h.WriteAny(&hash.BytesWithDomain{TheDomain: "extra", Bytes: []byte{1}})
	}
	return h
}

type commitCase struct {
	Made, Opened commitCtx
	Data         [][]byte
	Seed         uint64
}

func commitCtxRun(c commitCase) *pbt.Fail {
	mux := tape.Install(c.Seed)
	defer mux.Uninstall()
	vals := make([]interface{}, len(c.Data))
	for i, d := range c.Data {
		vals[i] = &hash.BytesWithDomain{TheDomain: "item", Bytes: d}
	}
	cm, dc, err := c.Made.state().Commit(vals...)
	if err != nil {
		return pbt.Failf("commit-error", err.Error())
	}
	if !c.Made.state().Decommit(cm, dc, vals...) {
		return pbt.Failf("commit-incomplete", "a commitment does not open under the state it was made under")
	}
	got := c.Opened.state().Decommit(cm, dc, vals...)
	want := c.Made == c.Opened
	if got != want {
		return pbt.Failf("commitment-not-bound-to-context", fmt.Sprintf("a commitment made under %+v opens=%v under %+v (expected %v)", c.Made, got, c.Opened, want))
	}
	return nil
}

var commitCtxProp = pbt.Define(pbt.Prop[commitCase]{Kind: "commitment-context", Run: commitCtxRun, Class: func(c commitCase) (string, bool) {
	d := "same"
	switch {
	case c.Made.Session != c.Opened.Session:
		d = "session"
	case c.Made.Party != c.Opened.Party:
		d = "party"
	case c.Made.Extra != c.Opened.Extra:
		d = "extra"
	}
	return "commitctx|" + d + fmt.Sprintf("|items=%d", len(c.Data)), d != "same"
}})

func TestCommitContext(t *testing.T) {
	rapid.Check(t, func(rt *rapid.T) {
		gen := func(label string) commitCtx {
			return commitCtx{Session: rapid.SampledFrom([]string{"s1", "s2", "s", ""}).Draw(rt, label+"session"),
				Party: rapid.SampledFrom([]string{"a", "b", "ab", ""}).Draw(rt, label+"party"), Extra: rapid.Bool().Draw(rt, label+"extra")}
		}
		c := commitCase{Made: gen("made-"), Seed: rapid.Uint64Range(1, 1<<40).Draw(rt, "seed")}
		c.Opened = c.Made
		switch rapid.IntRange(0, 3).Draw(rt, "differ") {
		case 0:
		case 1:
			c.Opened.Session = c.Made.Session + "x"
		case 2:
			c.Opened.Party = c.Made.Party + "b"
		default:
			c.Opened = gen("opened-")
		}
		c.Data = rapid.SliceOfN(rapid.SliceOfN(rapid.Byte(), 0, 8), 0, 3).Draw(rt, "data")
		commitCtxProp.One(rt, c)
	})
}
