// genprimes writes pairs of 1024-bit safe Blum primes found with the library's own sampler.
package main

import (
	"crypto/rand"
	"encoding/json"
	"fmt"
	"os"
	"strconv"

	"github.com/taurusgroup/multi-party-sig/pkg/math/sample"
	"github.com/taurusgroup/multi-party-sig/pkg/pool"
)

func main() {
	n, _ := strconv.Atoi(os.Args[1])
	pl := pool.NewPool(0)
	var out [][2]string
	for i := 0; i < n; i++ {
		p, q := sample.Paillier(rand.Reader, pl)
		out = append(out, [2]string{p.Big().Text(16), q.Big().Text(16)})
		fmt.Fprintln(os.Stderr, "pair", i)
		b, _ := json.MarshalIndent(out, "", " ")
		_ = os.WriteFile(os.Args[2], b, 0o644)
	}
}
