package proto

import (
	"bytes"
	"errors"
	"fmt"
	"math/big"
	"sort"

	"github.com/taurusgroup/multi-party-sig/pkg/party"
	"github.com/taurusgroup/multi-party-sig/verifharness/conv"
	"github.com/taurusgroup/multi-party-sig/verifharness/ev"
	"github.com/taurusgroup/multi-party-sig/verifharness/ref"
)

// Issue is a failed consistency condition (Sig is a stable classifier).
type Issue struct{ Sig, Detail string }

func issuef(sig, detail string) *Issue { return &Issue{sig, detail} }

// table is the canonical encoding of the public data one party reports (what must agree everywhere).
func table(m *Material, id party.ID) (group []byte, rows map[party.ID][]byte, shares map[party.ID]ref.Pt, err error) {
	rows = map[party.ID][]byte{}
	shares = map[party.ID]ref.Pt{}
	switch m.Scheme {
	case SchemeCMP:
		c := m.CMP[id]
		group, _ = c.PublicPoint().MarshalBinary()
		for j, p := range c.Public {
			var b bytes.Buffer
			e, _ := p.ECDSA.MarshalBinary()
			g, _ := p.ElGamal.MarshalBinary()
			b.Write(e)
			b.Write(g)
			b.Write(p.Paillier.N().Bytes())
			b.Write(p.Pedersen.N().Bytes())
			b.Write(p.Pedersen.S().Bytes())
			b.Write(p.Pedersen.T().Bytes())
			rows[j] = b.Bytes()
			shares[j] = conv.Ref(p.ECDSA)
		}
		rows["\x00rid"] = append([]byte{}, c.RID...)
	case SchemeFrost:
		c := m.Frost[id]
		group, _ = c.PublicKey.MarshalBinary()
		for j, p := range c.VerificationShares.Points {
			rows[j], _ = p.MarshalBinary()
			shares[j] = conv.Ref(p)
		}
	case SchemeFrostTap:
		c := m.FrostTap[id]
		group = append([]byte{}, c.PublicKey...)
		for j, p := range c.VerificationShares {
			rows[j], _ = p.MarshalBinary()
			shares[j] = conv.Ref(p)
		}
	default:
		return nil, nil, nil, errors.New("no table")
	}
	return
}

// Consistent checks the key-generation consistency conditions of C02 on a complete set of results.
func Consistent(m *Material) *Issue {
	sch := m.Scheme
	secrets := m.SecretShares()
	if sch == SchemeDoerner {
		pr, ps := conv.Ref(m.DoernerR.Public), conv.Ref(m.DoernerS.Public)
		if !pr.Equal(ps) {
			return issuef("group-key-differs:"+sch, "receiver and sender report different public keys")
		}
		if pr.Inf {
			return issuef("group-key-identity:"+sch, "public key is the identity")
		}
		sum := new(big.Int).Add(secrets[m.IDs[0]], secrets[m.IDs[1]])
		if !ref.BaseMul(sum).Equal(pr) {
			return issuef("reconstruction:"+sch, "the two secret shares do not add up to the reported public key")
		}
		return nil
	}
	// (1) all parties report the same group key and the same table
	g0, rows0, shares0, err := table(m, m.IDs[0])
	if err != nil {
		return issuef("table", err.Error())
	}
	for _, id := range m.IDs[1:] {
		g, rows, _, _ := table(m, id)
		if !bytes.Equal(g, g0) {
			return issuef("group-key-differs:"+sch, fmt.Sprintf("party %q reports %x, party %q reports %x", id, g, m.IDs[0], g0))
		}
		if len(rows) != len(rows0) {
			return issuef("table-differs:"+sch, fmt.Sprintf("party %q has %d table rows, party %q has %d", id, len(rows), m.IDs[0], len(rows0)))
		}
		for j, r := range rows0 {
			if !bytes.Equal(rows[j], r) {
				return issuef("table-differs:"+sch, fmt.Sprintf("entry for %q differs between parties %q and %q", j, id, m.IDs[0]))
			}
		}
	}
	for _, id := range m.IDs {
		if _, ok := shares0[id]; !ok {
			return issuef("table-incomplete:"+sch, fmt.Sprintf("no public share for %q", id))
		}
	}
	if len(shares0) != len(m.IDs) {
		return issuef("table-incomplete:"+sch, fmt.Sprintf("%d public shares for %d parties", len(shares0), len(m.IDs)))
	}
	key := m.Pub
	if key.Inf {
		return issuef("group-key-identity:"+sch, "group key is the identity")
	}
	if sch == SchemeFrostTap {
		if len(g0) != 32 || !key.EvenY() {
			return issuef("taproot-key-form", "Taproot key is not a 32-byte x-only key with even Y")
		}
	} else if !bytes.Equal(key.Compress(), g0) {
		return issuef("ref-inconsistent", "material public key differs from reported group key")
	}
	// (2) each party's secret share matches its own table entry (and, for CMP, its auxiliary secrets)
	for _, id := range m.IDs {
		if !ref.BaseMul(secrets[id]).Equal(shares0[id]) {
			return issuef("own-share-mismatch:"+sch, fmt.Sprintf("secret share of %q times G is not its table entry", id))
		}
		if sch == SchemeCMP {
			c := m.CMP[id]
			if !ref.BaseMul(conv.Big(c.ElGamal)).Equal(conv.Ref(c.Public[id].ElGamal)) {
				return issuef("own-elgamal-mismatch", fmt.Sprintf("ElGamal secret of %q does not match its public entry", id))
			}
			n := new(big.Int).Mul(c.Paillier.P().Big(), c.Paillier.Q().Big())
			if n.Cmp(c.Public[id].Paillier.N().Big()) != 0 || n.Cmp(c.Public[id].Pedersen.N().Big()) != 0 {
				return issuef("own-paillier-mismatch", fmt.Sprintf("Paillier secret of %q does not match the public moduli", id))
			}
			if c.Threshold != m.T || c.ID != id {
				return issuef("config-header", fmt.Sprintf("config of %q has ID %q threshold %d", id, c.ID, c.Threshold))
			}
		}
	}
	// (3) every subset of t+1 parties reconstructs the same key, from secrets and "in the exponent"
	ids := append([]party.ID{}, m.IDs...)
	sort.Slice(ids, func(i, j int) bool { return ids[i] < ids[j] })
	var fail *Issue
	ref.Subsets(len(ids), m.T+1, func(idx []int) {
		if fail != nil {
			return
		}
		xs := make([]*big.Int, len(idx))
		ss := make([]*big.Int, len(idx))
		ps := make([]ref.Pt, len(idx))
		for k, i := range idx {
			xs[k] = ref.IDScalar(string(ids[i]))
			ss[k] = secrets[ids[i]]
			ps[k] = shares0[ids[i]]
		}
		x := ref.Reconstruct(xs, ss)
		if !ref.BaseMul(x).Equal(key) {
			fail = issuef("reconstruction:"+sch, fmt.Sprintf("secret shares of subset %v do not reconstruct the group key", idx))
			return
		}
		if !ref.ReconstructPoint(xs, ps).Equal(key) {
			fail = issuef("exponent-interpolation:"+sch, fmt.Sprintf("table entries of subset %v do not interpolate to the group key", idx))
		}
	})
	ev.Get().Count("reconstruction_subsets", int64(binom(len(ids), m.T+1)))
	return fail
}

func binom(n, k int) int {
	r := 1
	for i := 0; i < k; i++ {
		r = r * (n - i) / (i + 1)
	}
	return r
}
