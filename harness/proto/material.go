package proto

import (
	"errors"
	"fmt"
	"math/big"

	"github.com/taurusgroup/multi-party-sig/pkg/ecdsa"
	"github.com/taurusgroup/multi-party-sig/pkg/math/curve"
	"github.com/taurusgroup/multi-party-sig/pkg/party"
	"github.com/taurusgroup/multi-party-sig/protocols/cmp"
	cmpconfig "github.com/taurusgroup/multi-party-sig/protocols/cmp/config"
	"github.com/taurusgroup/multi-party-sig/protocols/doerner"
	"github.com/taurusgroup/multi-party-sig/protocols/frost"
	"github.com/taurusgroup/multi-party-sig/verifharness/conv"
	"github.com/taurusgroup/multi-party-sig/verifharness/fix"
	"github.com/taurusgroup/multi-party-sig/verifharness/ref"
	"github.com/taurusgroup/multi-party-sig/verifharness/sim"
	"github.com/taurusgroup/multi-party-sig/verifharness/tape"
)

const (
	SchemeCMP      = "cmp"
	SchemeFrost    = "frost"
	SchemeFrostTap = "frost-taproot"
	SchemeDoerner  = "doerner"
)

var Schemes = []string{SchemeCMP, SchemeFrost, SchemeFrostTap, SchemeDoerner}

// Material is the key material of one group of shareholders.
type Material struct {
	Scheme string
	IDs    []party.ID // sorted; for Doerner [receiver, sender]
	T      int
	Pub    ref.Pt   // group public key as the oracle understands it (Taproot: the even-Y point)
	Secret *big.Int // known only for dealt material
	Kind   string   // dealer / keygen / refreshed / derived (provenance, for classification)

	CMP      map[party.ID]*cmp.Config
	Frost    map[party.ID]*frost.Config
	FrostTap map[party.ID]*frost.TaprootConfig
	DoernerR *doerner.ConfigReceiver
	DoernerS *doerner.ConfigSender
}

// Deal builds material with the trusted dealer (not available for Doerner, whose configs carry an OT setup).
func Deal(scheme string, seed uint64, ids []party.ID, t int) (*Material, error) {
	d := fix.Deal(seed, ids, t)
	m := &Material{Scheme: scheme, IDs: d.IDs, T: t, Pub: d.Public, Secret: d.Secret, Kind: "dealer"}
	switch scheme {
	case SchemeCMP:
		m.CMP = d.CMP(seed, int(seed%29))
	case SchemeFrost:
		m.Frost = d.Frost()
	case SchemeFrostTap:
		m.FrostTap, m.Secret = d.FrostTaproot()
		m.Pub = ref.BaseMul(m.Secret)
	default:
		return nil, fmt.Errorf("no dealer for %s", scheme)
	}
	return m, nil
}

func keygenProto(scheme string) string {
	switch scheme {
	case SchemeCMP:
		return CMPKeygen
	case SchemeFrost:
		return FrostKeygen
	case SchemeFrostTap:
		return FrostKeygenTap
	}
	return DoernerKeygen
}

func refreshProto(scheme string) string {
	switch scheme {
	case SchemeCMP:
		return CMPRefresh
	case SchemeFrost:
		return FrostRefresh
	case SchemeFrostTap:
		return FrostRefreshTap
	}
	return DoernerRefresh
}

// SignProto returns the default signing protocol of the scheme.
func SignProto(scheme string) string {
	switch scheme {
	case SchemeCMP:
		return CMPSign
	case SchemeFrost:
		return FrostSign
	case SchemeFrostTap:
		return FrostSignTap
	}
	return DoernerSign
}

// ErrIncomplete is returned when an all-honest run does not complete at quiescence.
type ErrIncomplete struct{ Detail string }

func (e *ErrIncomplete) Error() string { return "honest session did not complete: " + e.Detail }

// Outcomes collects the outcome of every party of a finished simulation.
func Outcomes(n *sim.Net) map[string]sim.Outcome {
	out := map[string]sim.Outcome{}
	for _, p := range n.Parties {
		out[p.Name] = p.Outcome()
	}
	return out
}

// RunHonest runs the session and requires every party to finish; it returns the results by party.
func RunHonest(s *Session, seed uint64, choose sim.Chooser) (map[party.ID]interface{}, *sim.Net, error) {
	mux := tape.Install(seed)
	defer mux.Uninstall()
	if s.Proto == CMPKeygen || s.Proto == CMPRefresh {
		defer fix.InstallPrimeSource(int(seed % 31))()
	}
	n, err := s.Run(mux, choose)
	if err != nil {
		return nil, n, err
	}
	res := map[party.ID]interface{}{}
	for _, p := range n.Parties {
		o := p.Outcome()
		if !o.Finished {
			return nil, n, &ErrIncomplete{fmt.Sprintf("party %q: %v", p.Name, o.Err)}
		}
		res[p.ID] = o.Value
	}
	return res, n, nil
}

// fromResults builds material out of keygen/refresh results.
func fromResults(scheme string, ids []party.ID, t int, res map[party.ID]interface{}) (*Material, error) {
	m := &Material{Scheme: scheme, IDs: ids, T: t}
	switch scheme {
	case SchemeCMP:
		m.CMP = map[party.ID]*cmp.Config{}
		for id, r := range res {
			c, ok := r.(*cmp.Config)
			if !ok {
				return nil, fmt.Errorf("result of %q has type %T", id, r)
			}
			m.CMP[id] = c
		}
		m.Pub = conv.Ref(m.CMP[ids[0]].PublicPoint())
	case SchemeFrost:
		m.Frost = map[party.ID]*frost.Config{}
		for id, r := range res {
			c, ok := r.(*frost.Config)
			if !ok {
				return nil, fmt.Errorf("result of %q has type %T", id, r)
			}
			m.Frost[id] = c
		}
		m.Pub = conv.Ref(m.Frost[ids[0]].PublicKey)
	case SchemeFrostTap:
		m.FrostTap = map[party.ID]*frost.TaprootConfig{}
		for id, r := range res {
			c, ok := r.(*frost.TaprootConfig)
			if !ok {
				return nil, fmt.Errorf("result of %q has type %T", id, r)
			}
			m.FrostTap[id] = c
		}
		p, ok := ref.LiftX(new(big.Int).SetBytes(m.FrostTap[ids[0]].PublicKey))
		if !ok || len(m.FrostTap[ids[0]].PublicKey) != 32 {
			return nil, errors.New("taproot public key is not a valid x-only key")
		}
		m.Pub = p
	case SchemeDoerner:
		var ok1, ok2 bool
		m.DoernerR, ok1 = res[ids[0]].(*doerner.ConfigReceiver)
		m.DoernerS, ok2 = res[ids[1]].(*doerner.ConfigSender)
		if !ok1 || !ok2 {
			return nil, fmt.Errorf("doerner results have types %T, %T", res[ids[0]], res[ids[1]])
		}
		m.Pub = conv.Ref(m.DoernerR.Public)
	}
	return m, nil
}

// Keygen runs the real key generation protocol.
func Keygen(scheme string, seed uint64, ids []party.ID, t int, choose sim.Chooser) (*Material, error) {
	if scheme != SchemeDoerner {
		ids = fix.SortedIDs(ids)
	}
	s := &Session{Proto: keygenProto(scheme), SessionID: []byte(fmt.Sprintf("keygen-%d", seed)), IDs: ids, T: t}
	res, _, err := RunHonest(s, seed, choose)
	if err != nil {
		return nil, err
	}
	m, err := fromResults(scheme, ids, t, res)
	if m != nil {
		m.Kind = "keygen"
	}
	return m, err
}

// RefreshSession builds the refresh session over this material.
func (m *Material) RefreshSession(sessionID []byte) *Session {
	return &Session{Proto: refreshProto(m.Scheme), SessionID: sessionID, IDs: m.IDs, T: m.T, CMP: m.CMP, Frost: m.Frost,
		FrostTap: m.FrostTap, DoernerR: m.DoernerR, DoernerS: m.DoernerS}
}

// Snapshot deep-copies the secret shares (FROST refresh updates the old scalar in place).
func (m *Material) SecretShares() map[party.ID]*big.Int {
	out := map[party.ID]*big.Int{}
	switch m.Scheme {
	case SchemeCMP:
		for id, c := range m.CMP {
			out[id] = conv.Big(c.ECDSA)
		}
	case SchemeFrost:
		for id, c := range m.Frost {
			out[id] = conv.Big(c.PrivateShare)
		}
	case SchemeFrostTap:
		for id, c := range m.FrostTap {
			out[id] = conv.Big(c.PrivateShare)
		}
	case SchemeDoerner:
		out[m.IDs[0]] = conv.Big(m.DoernerR.SecretShare)
		out[m.IDs[1]] = conv.Big(m.DoernerS.SecretShare)
	}
	return out
}

// Refresh runs the real refresh protocol and returns the new material.
func (m *Material) Refresh(seed uint64, choose sim.Chooser) (*Material, error) {
	s := m.RefreshSession([]byte(fmt.Sprintf("refresh-%d", seed)))
	res, _, err := RunHonest(s, seed, choose)
	if err != nil {
		return nil, err
	}
	nm, err := fromResults(m.Scheme, m.IDs, m.T, res)
	if nm != nil {
		nm.Kind = "refreshed"
		nm.Secret = m.Secret
	}
	return nm, err
}

// Derive applies non-hardened BIP-32 derivation at index i on every party's material.
func (m *Material) Derive(i uint32) (*Material, error) {
	nm := &Material{Scheme: m.Scheme, IDs: m.IDs, T: m.T, Kind: "derived"}
	switch m.Scheme {
	case SchemeCMP:
		nm.CMP = map[party.ID]*cmp.Config{}
		for id, c := range m.CMP {
			d, err := c.DeriveBIP32(i)
			if err != nil {
				return nil, err
			}
			nm.CMP[id] = d
		}
		nm.Pub = conv.Ref(nm.CMP[m.IDs[0]].PublicPoint())
	case SchemeFrost:
		nm.Frost = map[party.ID]*frost.Config{}
		for id, c := range m.Frost {
			d, err := c.DeriveChild(i)
			if err != nil {
				return nil, err
			}
			nm.Frost[id] = d
		}
		nm.Pub = conv.Ref(nm.Frost[m.IDs[0]].PublicKey)
	case SchemeFrostTap:
		nm.FrostTap = map[party.ID]*frost.TaprootConfig{}
		for id, c := range m.FrostTap {
			d, err := c.DeriveChild(i)
			if err != nil {
				return nil, err
			}
			nm.FrostTap[id] = d
		}
		p, ok := ref.LiftX(new(big.Int).SetBytes(nm.FrostTap[m.IDs[0]].PublicKey))
		if !ok {
			return nil, errors.New("derived taproot key invalid")
		}
		nm.Pub = p
	case SchemeDoerner:
		var err error
		if nm.DoernerR, err = m.DoernerR.DeriveBIP32(i); err != nil {
			return nil, err
		}
		if nm.DoernerS, err = m.DoernerS.DeriveBIP32(i); err != nil {
			return nil, err
		}
		nm.Pub = conv.Ref(nm.DoernerR.Public)
	}
	return nm, nil
}

// SignSession builds a signing session of protocol p for the given signers.
func (m *Material) SignSession(p string, signers []party.ID, msg, sessionID []byte) *Session {
	if m.Scheme != SchemeDoerner {
		signers = fix.SortedIDs(signers)
	}
	return &Session{Proto: p, SessionID: sessionID, IDs: signers, T: m.T, Msg: msg, CMP: m.CMP, Frost: m.Frost, FrostTap: m.FrostTap,
		DoernerR: m.DoernerR, DoernerS: m.DoernerS}
}

// PreSignatures extracts presignatures from the results of a cmp-presign session.
func PreSignatures(res map[party.ID]interface{}) (map[party.ID]*ecdsa.PreSignature, error) {
	out := map[party.ID]*ecdsa.PreSignature{}
	for id, r := range res {
		p, ok := r.(*ecdsa.PreSignature)
		if !ok {
			return nil, fmt.Errorf("presign result of %q has type %T", id, r)
		}
		out[id] = p
	}
	return out, nil
}

var _ = curve.Secp256k1{}

// Clone deep-copies the parts of the material that the library may update in place (FROST refresh
// adds to the old PrivateShare scalar), so that an old epoch can still be used after a refresh.
func (m *Material) Clone() *Material {
	c := *m
	cs := func(s curve.Scalar) curve.Scalar { return Group.NewScalar().Set(s) }
	cp := func(p curve.Point) curve.Point { return conv.Point(conv.Ref(p)) }
	switch m.Scheme {
	case SchemeCMP:
		c.CMP = map[party.ID]*cmp.Config{}
		for id, k := range m.CMP {
			n := *k
			n.ECDSA, n.ElGamal = cs(k.ECDSA), cs(k.ElGamal)
			n.RID, n.ChainKey = k.RID.Copy(), append([]byte{}, k.ChainKey...)
			n.Public = map[party.ID]*cmpconfig.Public{}
			for j, p := range k.Public {
				n.Public[j] = &cmpconfig.Public{ECDSA: cp(p.ECDSA), ElGamal: cp(p.ElGamal), Paillier: p.Paillier, Pedersen: p.Pedersen}
			}
			c.CMP[id] = &n
		}
	case SchemeFrost:
		c.Frost = map[party.ID]*frost.Config{}
		for id, k := range m.Frost {
			n := *k
			n.PrivateShare, n.PublicKey = cs(k.PrivateShare), cp(k.PublicKey)
			n.ChainKey = append([]byte{}, k.ChainKey...)
			vs := map[party.ID]curve.Point{}
			for j, p := range k.VerificationShares.Points {
				vs[j] = cp(p)
			}
			n.VerificationShares = party.NewPointMap(vs)
			c.Frost[id] = &n
		}
	case SchemeFrostTap:
		c.FrostTap = map[party.ID]*frost.TaprootConfig{}
		for id, k := range m.FrostTap {
			n := k.Clone()
			for j, p := range k.VerificationShares {
				n.VerificationShares[j] = cp(p).(*curve.Secp256k1Point)
			}
			c.FrostTap[id] = n
		}
	case SchemeDoerner:
		r, s := *m.DoernerR, *m.DoernerS
		r.SecretShare, r.Public, r.ChainKey = cs(r.SecretShare), cp(r.Public), append([]byte{}, r.ChainKey...)
		s.SecretShare, s.Public, s.ChainKey = cs(s.SecretShare), cp(s.Public), append([]byte{}, s.ChainKey...)
		c.DoernerR, c.DoernerS = &r, &s
	}
	return &c
}
