package proto

import (
	"fmt"

	"github.com/fxamacker/cbor/v2"
	"github.com/taurusgroup/multi-party-sig/pkg/party"
	"github.com/taurusgroup/multi-party-sig/protocols/cmp"
	"github.com/taurusgroup/multi-party-sig/protocols/doerner"
	"github.com/taurusgroup/multi-party-sig/protocols/frost"
)

// Encode serialises one party's key material with the documented encoder of its type.
func (m *Material) Encode(id party.ID) ([]byte, error) {
	switch m.Scheme {
	case SchemeCMP:
		return m.CMP[id].MarshalBinary()
	case SchemeFrost:
		return cbor.Marshal(m.Frost[id])
	case SchemeFrostTap:
		return cbor.Marshal(m.FrostTap[id])
	case SchemeDoerner:
		if id == m.IDs[0] {
			return cbor.Marshal(m.DoernerR)
		}
		return cbor.Marshal(m.DoernerS)
	}
	return nil, fmt.Errorf("unknown scheme")
}

// DecodeInto restores one party's key material with the documented decoder (Empty* constructors).
func (m *Material) DecodeInto(id party.ID, data []byte) error {
	switch m.Scheme {
	case SchemeCMP:
		c := cmp.EmptyConfig(Group)
		if err := c.UnmarshalBinary(data); err != nil {
			return err
		}
		m.CMP[id] = c
	case SchemeFrost:
		c := frost.EmptyConfig(Group)
		if err := cbor.Unmarshal(data, c); err != nil {
			return err
		}
		m.Frost[id] = c
	case SchemeFrostTap:
		c := &frost.TaprootConfig{}
		if err := cbor.Unmarshal(data, c); err != nil {
			return err
		}
		m.FrostTap[id] = c
	case SchemeDoerner:
		if id == m.IDs[0] {
			c := doerner.EmptyConfigReceiver(Group)
			if err := cbor.Unmarshal(data, c); err != nil {
				return err
			}
			m.DoernerR = c
		} else {
			c := doerner.EmptyConfigSender(Group)
			if err := cbor.Unmarshal(data, c); err != nil {
				return err
			}
			m.DoernerS = c
		}
	}
	return nil
}

// Restored returns a copy of the material in which every party's configuration went through
// serialisation and restoration.
func (m *Material) Restored() (*Material, error) {
	n := *m
	n.CMP = map[party.ID]*cmp.Config{}
	n.Frost = map[party.ID]*frost.Config{}
	n.FrostTap = map[party.ID]*frost.TaprootConfig{}
	for _, id := range m.IDs {
		b, err := m.Encode(id)
		if err != nil {
			return nil, fmt.Errorf("encode %q: %w", id, err)
		}
		if err := n.DecodeInto(id, b); err != nil {
			return nil, fmt.Errorf("decode %q: %w", id, err)
		}
	}
	return &n, nil
}
