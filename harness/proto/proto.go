// Package proto gives every protocol of the library one uniform way to be started on the simulator,
// and the independent oracles for their results.
package proto

import (
	"bytes"
	"errors"
	"fmt"
	"math/big"
	"sort"

	"github.com/fxamacker/cbor/v2"

	"github.com/taurusgroup/multi-party-sig/pkg/ecdsa"
	"github.com/taurusgroup/multi-party-sig/pkg/math/curve"
	"github.com/taurusgroup/multi-party-sig/pkg/party"
	"github.com/taurusgroup/multi-party-sig/pkg/pool"
	"github.com/taurusgroup/multi-party-sig/pkg/protocol"
	"github.com/taurusgroup/multi-party-sig/pkg/taproot"
	"github.com/taurusgroup/multi-party-sig/protocols/cmp"
	"github.com/taurusgroup/multi-party-sig/protocols/cmp/presign"
	"github.com/taurusgroup/multi-party-sig/protocols/doerner"
	"github.com/taurusgroup/multi-party-sig/protocols/example"
	"github.com/taurusgroup/multi-party-sig/protocols/frost"
	"github.com/taurusgroup/multi-party-sig/verifharness/conv"
	"github.com/taurusgroup/multi-party-sig/verifharness/ref"
	"github.com/taurusgroup/multi-party-sig/verifharness/sim"
	"github.com/taurusgroup/multi-party-sig/verifharness/tape"
	"github.com/taurusgroup/multi-party-sig/verifharness/toy"
)

var Group = curve.Secp256k1{}

const (
	FrostKeygen      = "frost-keygen"
	FrostKeygenTap   = "frost-keygen-taproot"
	FrostRefresh     = "frost-refresh"
	FrostRefreshTap  = "frost-refresh-taproot"
	FrostSign        = "frost-sign"
	FrostSignTap     = "frost-sign-taproot"
	CMPKeygen        = "cmp-keygen"
	CMPRefresh       = "cmp-refresh"
	CMPSign          = "cmp-sign"
	CMPPresign       = "cmp-presign"
	CMPPresignOnline = "cmp-presign-online"
	CMPPresignFull   = "cmp-presign-full"
	DoernerKeygen    = "doerner-keygen"
	DoernerRefresh   = "doerner-refresh"
	DoernerSign      = "doerner-sign"
	XOR              = "xor"
	Toy              = "toy" // Session.Pattern gives the round pattern
)

// Session describes one protocol execution: who takes part and with which inputs.
type Session struct {
	Proto     string
	SessionID []byte
	IDs       []party.ID // participants of this session (for Doerner: [receiver, sender])
	T         int
	Msg       []byte
	Pattern   string // toy protocols only

	CMP      map[party.ID]*cmp.Config
	Frost    map[party.ID]*frost.Config
	FrostTap map[party.ID]*frost.TaprootConfig
	DoernerR *doerner.ConfigReceiver
	DoernerS *doerner.ConfigSender
	Pre      map[party.ID]*ecdsa.PreSignature

	// Wrap lets an adversary engine wrap the start function of a party.
	Wrap func(id party.ID, f protocol.StartFunc) protocol.StartFunc

	// Pool is handed to the CMP / Doerner start functions (nil = everything on the calling goroutine, which is what the
	// deterministic checks need; only the race-detector run of C17 uses a real pool).
	Pool *pool.Pool
}

func (s *Session) TwoParty() bool {
	return s.Proto == DoernerKeygen || s.Proto == DoernerRefresh || s.Proto == DoernerSign
}

func (s *Session) other(id party.ID) party.ID {
	if s.IDs[0] == id {
		return s.IDs[1]
	}
	return s.IDs[0]
}

// StartFunc returns the library start function for party id.
func (s *Session) StartFunc(id party.ID) (f protocol.StartFunc, err error) {
	defer func() {
		// the public start functions evaluate their arguments eagerly; a panic there is a finding of C20,
		// everywhere else inputs are valid and this cannot happen.
		if x := recover(); x != nil {
			err = fmt.Errorf("panic while building start function: %v", x)
			panic(x)
		}
	}()
	switch s.Proto {
	case FrostKeygen:
		f = frost.Keygen(Group, id, s.IDs, s.T)
	case FrostKeygenTap:
		f = frost.KeygenTaproot(id, s.IDs, s.T)
	case FrostRefresh:
		f = frost.Refresh(s.Frost[id], s.IDs)
	case FrostRefreshTap:
		f = frost.RefreshTaproot(s.FrostTap[id], s.IDs)
	case FrostSign:
		f = frost.Sign(s.Frost[id], s.IDs, s.Msg)
	case FrostSignTap:
		f = frost.SignTaproot(s.FrostTap[id], s.IDs, s.Msg)
	case CMPKeygen:
		f = cmp.Keygen(Group, id, s.IDs, s.T, s.Pool)
	case CMPRefresh:
		f = cmp.Refresh(s.CMP[id], s.Pool)
	case CMPSign:
		f = cmp.Sign(s.CMP[id], s.IDs, s.Msg, s.Pool)
	case CMPPresign:
		f = cmp.Presign(s.CMP[id], s.IDs, s.Pool)
	case CMPPresignOnline:
		f = cmp.PresignOnline(s.CMP[id], s.Pre[id], s.Msg, s.Pool)
	case CMPPresignFull:
		f = presign.StartPresign(s.CMP[id], s.IDs, s.Msg, s.Pool)
	case DoernerKeygen:
		f = doerner.Keygen(Group, id == s.IDs[0], id, s.other(id), nil)
	case DoernerRefresh:
		if id == s.IDs[0] {
			f = doerner.RefreshReceiver(s.DoernerR, id, s.other(id), nil)
		} else {
			f = doerner.RefreshSender(s.DoernerS, id, s.other(id), nil)
		}
	case DoernerSign:
		if id == s.IDs[0] {
			f = doerner.SignReceiver(s.DoernerR, id, s.other(id), s.Msg, nil)
		} else {
			f = doerner.SignSender(s.DoernerS, id, s.other(id), s.Msg, nil)
		}
	case XOR:
		f = example.StartXOR(id, s.IDs)
	case Toy:
		f = toy.Start(id, s.IDs, s.Pattern)
	default:
		return nil, fmt.Errorf("unknown protocol %q", s.Proto)
	}
	if s.Wrap != nil {
		f = s.Wrap(id, f)
	}
	return f, nil
}

// Handler constructs the real library handler for party id.
func (s *Session) Handler(id party.ID) (protocol.Handler, error) {
	f, err := s.StartFunc(id)
	if err != nil {
		return nil, err
	}
	if s.TwoParty() {
		h, err := protocol.NewTwoPartyHandler(f, s.SessionID, id == s.IDs[0])
		if err != nil {
			return nil, err
		}
		return h, nil
	}
	h, err := protocol.NewMultiHandler(f, s.SessionID)
	if err != nil {
		return nil, err
	}
	return h, nil
}

// Order in which parties are added to a simulation: sorted (MultiHandler) or receiver first (Doerner).
func (s *Session) Order() []party.ID {
	if s.TwoParty() {
		return s.IDs
	}
	out := append([]party.ID{}, s.IDs...)
	sort.Slice(out, func(i, j int) bool { return out[i] < out[j] })
	return out
}

// AddAll adds every participant to the network under its own name.
func (s *Session) AddAll(n *sim.Net) error {
	for _, id := range s.Order() {
		id := id
		if _, err := n.Add(string(id), id, func() (protocol.Handler, error) { return s.Handler(id) }); err != nil {
			return fmt.Errorf("party %q: %w", id, err)
		}
	}
	n.Start()
	return nil
}

// Run executes an all-honest session under the given schedule and returns the network at quiescence.
func (s *Session) Run(mux *tape.Mux, choose sim.Chooser) (*sim.Net, error) {
	n := sim.New(mux)
	if err := s.AddAll(n); err != nil {
		return n, err
	}
	err := n.Run(choose, 100000)
	return n, err
}

// ---------- result oracles (independent of the library's own Verify)

// CheckSignature judges a signing result against the reference verifier of its scheme.
func CheckSignature(protoName string, result interface{}, pub ref.Pt, msg []byte) error {
	switch protoName {
	case CMPSign, CMPPresignOnline, CMPPresignFull, DoernerSign:
		sig, ok := result.(*ecdsa.Signature)
		if !ok || sig == nil {
			return fmt.Errorf("result has type %T, want *ecdsa.Signature", result)
		}
		R := conv.Ref(sig.R)
		if R.Inf {
			return errors.New("signature nonce point is the identity")
		}
		r := new(big.Int).Mod(R.X, ref.N)
		s := conv.Big(sig.S)
		if !ref.ECDSAVerify(pub, msg, r, s) {
			return fmt.Errorf("textbook ECDSA verification fails (r=%x s=%x)", r, s)
		}
		if !ref.ECDSANoncePoint(pub, msg, r, s).Equal(R) {
			return errors.New("returned R is not the point the verification equation yields")
		}
		return nil
	case FrostSign:
		sig, ok := result.(frost.Signature)
		if !ok {
			return fmt.Errorf("result has type %T, want frost.Signature", result)
		}
		z := conv.Peek(&sig, "z").(curve.Scalar)
		if !ref.SchnorrVerifyGeneric(pub, conv.Ref(sig.R), conv.Big(z), msg) {
			return errors.New("reference Schnorr verification z*G == R + c*Y fails")
		}
		return nil
	case FrostSignTap:
		sig, ok := result.(taproot.Signature)
		if !ok {
			return fmt.Errorf("result has type %T, want taproot.Signature", result)
		}
		if !ref.BIP340Verify(pub.XBytes(), msg, sig) {
			return errors.New("reference BIP-340 verification fails")
		}
		return nil
	}
	return fmt.Errorf("no signature oracle for %s", protoName)
}

// SigBytes is a canonical encoding of a signing result, for equality across parties and schedules.
func SigBytes(result interface{}) []byte {
	switch sig := result.(type) {
	case *ecdsa.Signature:
		r, _ := sig.R.MarshalBinary()
		s, _ := sig.S.MarshalBinary()
		return append(r, s...)
	case frost.Signature:
		r, _ := sig.R.MarshalBinary()
		z, _ := conv.Peek(&sig, "z").(curve.Scalar).MarshalBinary()
		return append(r, z...)
	case taproot.Signature:
		return []byte(sig)
	}
	return nil
}

func EqualBytes(a, b []byte) bool { return bytes.Equal(a, b) }

// ResultBytes is a canonical encoding of any protocol result, for equality across parties and schedules.
func ResultBytes(v interface{}) ([]byte, error) {
	if b := SigBytes(v); b != nil {
		return b, nil
	}
	switch r := v.(type) {
	case []byte:
		return r, nil
	case *cmp.Config:
		return r.MarshalBinary()
	case *doerner.ConfigReceiver:
		// the OT setup has unexported fields; shares, key and chain key are what later runs depend on
		s, _ := r.SecretShare.MarshalBinary()
		p, _ := r.Public.MarshalBinary()
		return append(append(s, p...), r.ChainKey...), nil
	case *doerner.ConfigSender:
		s, _ := r.SecretShare.MarshalBinary()
		p, _ := r.Public.MarshalBinary()
		return append(append(s, p...), r.ChainKey...), nil
	case *ecdsa.PreSignature:
		var b bytes.Buffer
		b.Write(r.ID)
		rb, _ := r.R.MarshalBinary()
		k, _ := r.KShare.MarshalBinary()
		c, _ := r.ChiShare.MarshalBinary()
		b.Write(rb)
		b.Write(k)
		b.Write(c)
		for _, pm := range []*party.PointMap{r.RBar, r.S} {
			ids := make([]string, 0, len(pm.Points))
			for id := range pm.Points {
				ids = append(ids, string(id))
			}
			sort.Strings(ids)
			for _, id := range ids {
				pb, _ := pm.Points[party.ID(id)].MarshalBinary()
				fmt.Fprintf(&b, "|%q=%x", id, pb)
			}
			b.WriteString("#")
		}
		return b.Bytes(), nil
	case *frost.Config:
		var b bytes.Buffer
		fmt.Fprintf(&b, "%q|%d|", r.ID, r.Threshold)
		s, _ := r.PrivateShare.MarshalBinary()
		p, _ := r.PublicKey.MarshalBinary()
		b.Write(s)
		b.Write(p)
		b.Write(r.ChainKey)
		ids := make([]string, 0, len(r.VerificationShares.Points))
		for id := range r.VerificationShares.Points {
			ids = append(ids, string(id))
		}
		sort.Strings(ids)
		for _, id := range ids {
			pb, _ := r.VerificationShares.Points[party.ID(id)].MarshalBinary()
			fmt.Fprintf(&b, "|%q=%x", id, pb)
		}
		return b.Bytes(), nil
	case *frost.TaprootConfig:
		var b bytes.Buffer
		fmt.Fprintf(&b, "%q|%d|", r.ID, r.Threshold)
		s, _ := r.PrivateShare.MarshalBinary()
		b.Write(s)
		b.Write(r.PublicKey)
		b.Write(r.ChainKey)
		ids := make([]string, 0, len(r.VerificationShares))
		for id := range r.VerificationShares {
			ids = append(ids, string(id))
		}
		sort.Strings(ids)
		for _, id := range ids {
			pb, _ := r.VerificationShares[party.ID(id)].MarshalBinary()
			fmt.Fprintf(&b, "|%q=%x", id, pb)
		}
		return b.Bytes(), nil
	}
	em, err := cbor.CanonicalEncOptions().EncMode()
	if err != nil {
		return nil, err
	}
	return em.Marshal(v)
}
