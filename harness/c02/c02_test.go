package c02

import (
	"errors"
	"fmt"
	"strings"
	"testing"

	"github.com/taurusgroup/multi-party-sig/verifharness/ev"
	"github.com/taurusgroup/multi-party-sig/verifharness/fix"
	"github.com/taurusgroup/multi-party-sig/verifharness/pbt"
	"github.com/taurusgroup/multi-party-sig/verifharness/proto"
	"github.com/taurusgroup/multi-party-sig/verifharness/sim"
	"pgregory.net/rapid"
)

func TestMain(m *testing.M)   { pbt.Main(m) }
func TestReplay(t *testing.T) { pbt.Replay(t) }
func TestCorpus(t *testing.T) { pbt.Corpus(t) }

type Case struct {
	Scheme string
	N, T   int
	Family string
	Pick   int
	Seed   uint64
	Sched  []int
}

func schedShape(s []int) string {
	dup, re := false, false
	for _, v := range s {
		if (v>>12)&1 == 1 {
			dup = true
		}
		if v&0xFFF != 0 {
			re = true
		}
	}
	return fmt.Sprintf("reorder=%v,dup=%v", re, dup)
}

func classify(c Case) (string, bool) {
	nt := c.T < c.N-1 || c.Family != "letters" || schedShape(c.Sched) != "reorder=false,dup=false"
	return fmt.Sprintf("%s|n=%d|t=%d|%s|%s", c.Scheme, c.N, c.T, c.Family, schedShape(c.Sched)), nt
}

func run(c Case) *pbt.Fail {
	ids := fix.IDs(c.Family, c.N, c.Pick)
	if c.Scheme == proto.SchemeDoerner {
		ids = ids[:2]
	}
	m, err := proto.Keygen(c.Scheme, c.Seed, ids, c.T, sim.FromList(c.Sched))
	if err != nil {
		var pe *sim.PanicError
		if errors.As(err, &pe) {
			return pbt.Failf("panic:keygen:"+c.Scheme, pe.Error()+"\n"+pe.Stack)
		}
		if strings.Contains(err.Error(), "cbor: invalid UTF-8 string") {
			return pbt.Failf("non-utf8-id:keygen:"+c.Scheme, err.Error())
		}
		if _, ok := err.(*proto.ErrIncomplete); ok {
			return pbt.Failf("incomplete:keygen:"+c.Scheme, err.Error())
		}
		return pbt.Failf("error:keygen:"+c.Scheme, err.Error())
	}
	if is := proto.Consistent(m); is != nil {
		return pbt.Failf(is.Sig, is.Detail)
	}
	return nil
}

var prop = pbt.Define(pbt.Prop[Case]{Kind: "keygen", Class: classify, Run: run})

func gen(t *rapid.T, scheme string, maxN int) Case {
	c := Case{Scheme: scheme}
	if scheme == proto.SchemeDoerner {
		c.N, c.T = 2, 1
	} else {
		c.N = rapid.IntRange(1, maxN).Draw(t, "n")
		c.T = rapid.IntRange(0, c.N-1).Draw(t, "t")
	}
	c.Family = rapid.SampledFrom(fix.Families).Draw(t, "family")
	c.Pick = rapid.IntRange(0, 7).Draw(t, "pick")
	c.Seed = rapid.Uint64Range(1, 1<<40).Draw(t, "seed")
	c.Sched = rapid.SliceOfN(rapid.IntRange(0, 8191), 0, 50).Draw(t, "sched")
	return c
}

func TestFrost(t *testing.T) {
	rapid.Check(t, func(rt *rapid.T) {
		scheme := rapid.SampledFrom([]string{proto.SchemeFrost, proto.SchemeFrostTap}).Draw(rt, "scheme")
		prop.One(rt, gen(rt, scheme, 6))
	})
}

func TestDoerner(t *testing.T) {
	rapid.Check(t, func(rt *rapid.T) { prop.One(rt, gen(rt, proto.SchemeDoerner, 2)) })
}

func TestCMP(t *testing.T) {
	rapid.Check(t, func(rt *rapid.T) {
		maxN := 3
		if ev.Get().Thorough() {
			maxN = 5
		}
		prop.One(rt, gen(rt, proto.SchemeCMP, maxN))
	})
}
