package c02

import (
	"bytes"
	"errors"
	"fmt"
	"math/big"
	"sort"
	"strings"
	"testing"

	"github.com/taurusgroup/multi-party-sig/pkg/party"
	"github.com/taurusgroup/multi-party-sig/verifharness/conv"
	"github.com/taurusgroup/multi-party-sig/verifharness/ev"
	"github.com/taurusgroup/multi-party-sig/verifharness/fix"
	"github.com/taurusgroup/multi-party-sig/verifharness/pbt"
	"github.com/taurusgroup/multi-party-sig/verifharness/proto"
	"github.com/taurusgroup/multi-party-sig/verifharness/ref"
	"github.com/taurusgroup/multi-party-sig/verifharness/sim"
	"pgregory.net/rapid"
)

func TestMain(m *testing.M)   { pbt.Main(m) }
func TestReplay(t *testing.T) { pbt.Replay(t) }
func TestCorpus(t *testing.T) { pbt.Corpus(t) }

type Case struct {
	Scheme string
	N, T   int
	Family string
	Pick   int
	Seed   uint64
	Sched  []int
}

func schedShape(s []int) string {
	dup, re := false, false
	for _, v := range s {
		if (v>>12)&1 == 1 {
			dup = true
		}
		if v&0xFFF != 0 {
			re = true
		}
	}
	return fmt.Sprintf("reorder=%v,dup=%v", re, dup)
}

func classify(c Case) (string, bool) {
	nt := c.T < c.N-1 || c.Family != "letters" || schedShape(c.Sched) != "reorder=false,dup=false"
	return fmt.Sprintf("%s|n=%d|t=%d|%s|%s", c.Scheme, c.N, c.T, c.Family, schedShape(c.Sched)), nt
}

// table is the canonical encoding of the public data one party reports (what must agree everywhere).
func table(m *proto.Material, id party.ID) (group []byte, rows map[party.ID][]byte, shares map[party.ID]ref.Pt, err error) {
	rows = map[party.ID][]byte{}
	shares = map[party.ID]ref.Pt{}
	switch m.Scheme {
	case proto.SchemeCMP:
		c := m.CMP[id]
		group, _ = c.PublicPoint().MarshalBinary()
		for j, p := range c.Public {
			var b bytes.Buffer
			e, _ := p.ECDSA.MarshalBinary()
			g, _ := p.ElGamal.MarshalBinary()
			b.Write(e)
			b.Write(g)
			b.Write(p.Paillier.N().Bytes())
			b.Write(p.Pedersen.N().Bytes())
			b.Write(p.Pedersen.S().Bytes())
			b.Write(p.Pedersen.T().Bytes())
			rows[j] = b.Bytes()
			shares[j] = conv.Ref(p.ECDSA)
		}
		rows["\x00rid"] = append([]byte{}, c.RID...)
	case proto.SchemeFrost:
		c := m.Frost[id]
		group, _ = c.PublicKey.MarshalBinary()
		for j, p := range c.VerificationShares.Points {
			rows[j], _ = p.MarshalBinary()
			shares[j] = conv.Ref(p)
		}
	case proto.SchemeFrostTap:
		c := m.FrostTap[id]
		group = append([]byte{}, c.PublicKey...)
		for j, p := range c.VerificationShares {
			rows[j], _ = p.MarshalBinary()
			shares[j] = conv.Ref(p)
		}
	default:
		return nil, nil, nil, errors.New("no table")
	}
	return
}

func run(c Case) *pbt.Fail {
	ids := fix.IDs(c.Family, c.N, c.Pick)
	if c.Scheme == proto.SchemeDoerner {
		ids = ids[:2]
	}
	m, err := proto.Keygen(c.Scheme, c.Seed, ids, c.T, sim.FromList(c.Sched))
	if err != nil {
		var pe *sim.PanicError
		if errors.As(err, &pe) {
			return pbt.Failf("panic:keygen:"+c.Scheme, pe.Error()+"\n"+pe.Stack)
		}
		if strings.Contains(err.Error(), "cbor: invalid UTF-8 string") {
			return pbt.Failf("non-utf8-id:keygen:"+c.Scheme, err.Error())
		}
		if _, ok := err.(*proto.ErrIncomplete); ok {
			return pbt.Failf("incomplete:keygen:"+c.Scheme, err.Error())
		}
		return pbt.Failf("error:keygen:"+c.Scheme, err.Error())
	}
	return Consistent(m)
}

// Consistent checks the key-generation consistency conditions of C02 on a complete set of results.
func Consistent(m *proto.Material) *pbt.Fail {
	sch := m.Scheme
	secrets := m.SecretShares()
	if sch == proto.SchemeDoerner {
		pr, ps := conv.Ref(m.DoernerR.Public), conv.Ref(m.DoernerS.Public)
		if !pr.Equal(ps) {
			return pbt.Failf("group-key-differs:"+sch, "receiver and sender report different public keys")
		}
		if pr.Inf {
			return pbt.Failf("group-key-identity:"+sch, "public key is the identity")
		}
		sum := new(big.Int).Add(secrets[m.IDs[0]], secrets[m.IDs[1]])
		if !ref.BaseMul(sum).Equal(pr) {
			return pbt.Failf("reconstruction:"+sch, "the two secret shares do not add up to the reported public key")
		}
		return nil
	}
	// (1) all parties report the same group key and the same table
	g0, rows0, shares0, err := table(m, m.IDs[0])
	if err != nil {
		return pbt.Failf("table", err.Error())
	}
	for _, id := range m.IDs[1:] {
		g, rows, _, _ := table(m, id)
		if !bytes.Equal(g, g0) {
			return pbt.Failf("group-key-differs:"+sch, fmt.Sprintf("party %q reports %x, party %q reports %x", id, g, m.IDs[0], g0))
		}
		if len(rows) != len(rows0) {
			return pbt.Failf("table-differs:"+sch, fmt.Sprintf("party %q has %d table rows, party %q has %d", id, len(rows), m.IDs[0], len(rows0)))
		}
		for j, r := range rows0 {
			if !bytes.Equal(rows[j], r) {
				return pbt.Failf("table-differs:"+sch, fmt.Sprintf("entry for %q differs between parties %q and %q", j, id, m.IDs[0]))
			}
		}
	}
	for _, id := range m.IDs {
		if _, ok := shares0[id]; !ok {
			return pbt.Failf("table-incomplete:"+sch, fmt.Sprintf("no public share for %q", id))
		}
	}
	if len(shares0) != len(m.IDs) {
		return pbt.Failf("table-incomplete:"+sch, fmt.Sprintf("%d public shares for %d parties", len(shares0), len(m.IDs)))
	}
	key := m.Pub
	if key.Inf {
		return pbt.Failf("group-key-identity:"+sch, "group key is the identity")
	}
	if sch == proto.SchemeFrostTap {
		if len(g0) != 32 || !key.EvenY() {
			return pbt.Failf("taproot-key-form", "Taproot key is not a 32-byte x-only key with even Y")
		}
	} else if !bytes.Equal(key.Compress(), g0) {
		return pbt.Failf("ref-inconsistent", "material public key differs from reported group key")
	}
	// (2) each party's secret share matches its own table entry (and, for CMP, its auxiliary secrets)
	for _, id := range m.IDs {
		if !ref.BaseMul(secrets[id]).Equal(shares0[id]) {
			return pbt.Failf("own-share-mismatch:"+sch, fmt.Sprintf("secret share of %q times G is not its table entry", id))
		}
		if sch == proto.SchemeCMP {
			c := m.CMP[id]
			if !ref.BaseMul(conv.Big(c.ElGamal)).Equal(conv.Ref(c.Public[id].ElGamal)) {
				return pbt.Failf("own-elgamal-mismatch", fmt.Sprintf("ElGamal secret of %q does not match its public entry", id))
			}
			n := new(big.Int).Mul(c.Paillier.P().Big(), c.Paillier.Q().Big())
			if n.Cmp(c.Public[id].Paillier.N().Big()) != 0 || n.Cmp(c.Public[id].Pedersen.N().Big()) != 0 {
				return pbt.Failf("own-paillier-mismatch", fmt.Sprintf("Paillier secret of %q does not match the public moduli", id))
			}
			if c.Threshold != m.T || c.ID != id {
				return pbt.Failf("config-header", fmt.Sprintf("config of %q has ID %q threshold %d", id, c.ID, c.Threshold))
			}
		}
	}
	// (3) every subset of t+1 parties reconstructs the same key, from secrets and "in the exponent"
	ids := append([]party.ID{}, m.IDs...)
	sort.Slice(ids, func(i, j int) bool { return ids[i] < ids[j] })
	var fail *pbt.Fail
	ref.Subsets(len(ids), m.T+1, func(idx []int) {
		if fail != nil {
			return
		}
		xs := make([]*big.Int, len(idx))
		ss := make([]*big.Int, len(idx))
		ps := make([]ref.Pt, len(idx))
		for k, i := range idx {
			xs[k] = ref.IDScalar(string(ids[i]))
			ss[k] = secrets[ids[i]]
			ps[k] = shares0[ids[i]]
		}
		x := ref.Reconstruct(xs, ss)
		if !ref.BaseMul(x).Equal(key) {
			fail = pbt.Failf("reconstruction:"+sch, fmt.Sprintf("secret shares of subset %v do not reconstruct the group key", idx))
			return
		}
		if !ref.ReconstructPoint(xs, ps).Equal(key) {
			fail = pbt.Failf("exponent-interpolation:"+sch, fmt.Sprintf("table entries of subset %v do not interpolate to the group key", idx))
		}
	})
	ev.Get().Count("reconstruction_subsets", int64(binom(len(ids), m.T+1)))
	return fail
}

func binom(n, k int) int {
	r := 1
	for i := 0; i < k; i++ {
		r = r * (n - i) / (i + 1)
	}
	return r
}

var prop = pbt.Define(pbt.Prop[Case]{Kind: "keygen", Class: classify, Run: run})

func gen(t *rapid.T, scheme string, maxN int) Case {
	c := Case{Scheme: scheme}
	if scheme == proto.SchemeDoerner {
		c.N, c.T = 2, 1
	} else {
		c.N = rapid.IntRange(1, maxN).Draw(t, "n")
		c.T = rapid.IntRange(0, c.N-1).Draw(t, "t")
	}
	c.Family = rapid.SampledFrom(fix.Families).Draw(t, "family")
	c.Pick = rapid.IntRange(0, 7).Draw(t, "pick")
	c.Seed = rapid.Uint64Range(1, 1<<40).Draw(t, "seed")
	c.Sched = rapid.SliceOfN(rapid.IntRange(0, 8191), 0, 50).Draw(t, "sched")
	return c
}

func TestFrost(t *testing.T) {
	rapid.Check(t, func(rt *rapid.T) {
		scheme := rapid.SampledFrom([]string{proto.SchemeFrost, proto.SchemeFrostTap}).Draw(rt, "scheme")
		prop.One(rt, gen(rt, scheme, 6))
	})
}

func TestDoerner(t *testing.T) {
	rapid.Check(t, func(rt *rapid.T) { prop.One(rt, gen(rt, proto.SchemeDoerner, 2)) })
}

func TestCMP(t *testing.T) {
	rapid.Check(t, func(rt *rapid.T) {
		maxN := 3
		if ev.Get().Thorough() {
			maxN = 5
		}
		prop.One(rt, gen(rt, proto.SchemeCMP, maxN))
	})
}
