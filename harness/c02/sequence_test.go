package c02

import (
	"fmt"
	"testing"

	"github.com/taurusgroup/multi-party-sig/pkg/party"
	"github.com/taurusgroup/multi-party-sig/verifharness/ev"
	"github.com/taurusgroup/multi-party-sig/verifharness/pbt"
	"github.com/taurusgroup/multi-party-sig/verifharness/proto"
	"github.com/taurusgroup/multi-party-sig/verifharness/sim"
)

// Key generations do not happen in fresh processes: one process generates many keys. A case here is a SEQUENCE of key
// generations in one process whose participant sets are adversarially related (equally sized sets whose sorted
// identifiers concatenate to the same bytes, the relation that once broke the session hash): every one of them must
// satisfy the conditions of the statement on its own, whatever an earlier one left behind in process-wide state.

type seqCase struct {
	Scheme string
	T      int
	Sets   [][]string
	Seed   uint64
}

func seqRun(c seqCase) *pbt.Fail {
	for i, set := range c.Sets {
		ids := make([]party.ID, len(set))
		for j, s := range set {
			ids[j] = party.ID(s)
		}
		m, err := proto.Keygen(c.Scheme, c.Seed+uint64(i), ids, c.T, sim.FIFO)
		if err != nil {
			return pbt.Failf("error:keygen-sequence:"+c.Scheme, fmt.Sprintf("keygen %d of the sequence (%q): %v", i+1, set, err))
		}
		if is := proto.Consistent(m); is != nil {
			return pbt.Failf("sequence:"+is.Sig, fmt.Sprintf("keygen %d of the sequence %q: %s", i+1, c.Sets, is.Detail))
		}
	}
	return nil
}

var seqProp = pbt.Define(pbt.Prop[seqCase]{Kind: "keygen-sequence", Run: seqRun, Class: func(c seqCase) (string, bool) {
	return fmt.Sprintf("sequence|%s|t=%d|%q", c.Scheme, c.T, c.Sets), true
}})

func TestSequentialKeygens(t *testing.T) {
	rec := ev.Get()
	pairs := [][][]string{{{"a", "bc"}, {"ab", "c"}}, {{"a", "b", "cd"}, {"a", "bc", "d"}, {"ab", "c", "d"}}}
	i := 0
	for _, scheme := range []string{proto.SchemeFrost, proto.SchemeFrostTap, proto.SchemeCMP} {
		for pi, sets := range pairs {
			if scheme == proto.SchemeCMP && pi > 0 && !rec.Thorough() {
				continue // three 3-party CMP key generations: thorough tier only
			}
			for _, th := range []int{len(sets[0]) - 1, 0} {
				if scheme == proto.SchemeCMP && th == 0 && !rec.Thorough() {
					continue
				}
				i++
				if !rec.Mine(i) {
					continue
				}
				seqProp.One(t, seqCase{Scheme: scheme, T: th, Sets: sets, Seed: 4242})
			}
		}
	}
}
