package dbg

import (
	"fmt"
	"github.com/taurusgroup/multi-party-sig/pkg/party"
	"github.com/taurusgroup/multi-party-sig/verifharness/proto"
	"github.com/taurusgroup/multi-party-sig/verifharness/sim"
	"github.com/taurusgroup/multi-party-sig/verifharness/tape"
	"testing"
)

func TestD(t *testing.T) {
	s := &proto.Session{Proto: proto.FrostKeygen, SessionID: []byte("x"), IDs: []party.ID{"a", "b"}, T: 0}
	mux := tape.Install(1)
	defer mux.Uninstall()
	n := sim.New(mux)
	if err := s.AddAll(n); err != nil {
		t.Fatal(err)
	}
	for len(n.Pending) > 0 {
		d := n.Pending[0]
		fmt.Printf("deliver r=%d bc=%v from=%s to=%s (To=%q)\n", d.M.RoundNumber, d.M.Broadcast, d.From, d.To, d.M.To)
		if err := n.Step(0, false); err != nil {
			t.Fatal(err)
		}
		p := n.Party(d.To)
		fmt.Printf("   accepted=%v closed=%v\n", p.Log[len(p.Log)-1].Accepted, p.Closed)
	}
	for _, p := range n.Parties {
		fmt.Println(p.Name, p.Outcome().Err, p.Outcome().Finished)
	}
}
