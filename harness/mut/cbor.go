// Package mut decodes CBOR (as produced by the library) into an ordered tree, lets checks alter one
// node selected by path, and re-encodes it - including shapes a well-behaved encoder never emits
// (duplicate keys, absurd lengths, wrong types).
package mut

import (
	"encoding/binary"
	"errors"
	"fmt"
	"strconv"
	"strings"
)

// Kind of a node.
const (
	Uint  = 'u'
	Nint  = 'n' // negative integer -1-U
	Bytes = 'b'
	Text  = 't'
	Array = 'a'
	Map   = 'm'
	False = 'f'
	True  = 'T'
	Null  = 'z'
	Tag   = 'g'
	Float = 'F' // kept raw
	Raw   = 'x' // pre-encoded bytes, emitted verbatim
)

type Node struct {
	K  byte
	U  uint64  // Uint / Nint / Tag number
	B  []byte  // Bytes / Raw / Float payload
	S  string  // Text
	A  []*Node // Array items, Tag content (1 item)
	MK []*Node // Map keys
	MV []*Node // Map values
	// Inner is set for byte strings that wrap a nested encoding: Prefix ‖ CBOR(Inner).
	Inner  *Node
	Prefix []byte
}

var errTrunc = errors.New("cbor: truncated")

func readHead(b []byte) (major byte, val uint64, n int, err error) {
	if len(b) == 0 {
		return 0, 0, 0, errTrunc
	}
	major, info := b[0]>>5, b[0]&0x1f
	switch {
	case info < 24:
		return major, uint64(info), 1, nil
	case info == 24:
		if len(b) < 2 {
			return 0, 0, 0, errTrunc
		}
		return major, uint64(b[1]), 2, nil
	case info == 25:
		if len(b) < 3 {
			return 0, 0, 0, errTrunc
		}
		return major, uint64(binary.BigEndian.Uint16(b[1:])), 3, nil
	case info == 26:
		if len(b) < 5 {
			return 0, 0, 0, errTrunc
		}
		return major, uint64(binary.BigEndian.Uint32(b[1:])), 5, nil
	case info == 27:
		if len(b) < 9 {
			return 0, 0, 0, errTrunc
		}
		return major, binary.BigEndian.Uint64(b[1:]), 9, nil
	}
	return 0, 0, 0, fmt.Errorf("cbor: unsupported additional info %d", info)
}

func decode(b []byte, depth int) (*Node, int, error) {
	if depth > 64 {
		return nil, 0, errors.New("cbor: too deep")
	}
	major, val, n, err := readHead(b)
	if err != nil {
		return nil, 0, err
	}
	switch major {
	case 0:
		return &Node{K: Uint, U: val}, n, nil
	case 1:
		return &Node{K: Nint, U: val}, n, nil
	case 2, 3:
		if uint64(len(b)-n) < val {
			return nil, 0, errTrunc
		}
		payload := append([]byte{}, b[n:n+int(val)]...)
		if major == 2 {
			return &Node{K: Bytes, B: payload}, n + int(val), nil
		}
		return &Node{K: Text, S: string(payload)}, n + int(val), nil
	case 4:
		if val > uint64(len(b)) {
			return nil, 0, errTrunc
		}
		node := &Node{K: Array}
		off := n
		for i := uint64(0); i < val; i++ {
			it, k, err := decode(b[off:], depth+1)
			if err != nil {
				return nil, 0, err
			}
			node.A = append(node.A, it)
			off += k
		}
		return node, off, nil
	case 5:
		if val > uint64(len(b)) {
			return nil, 0, errTrunc
		}
		node := &Node{K: Map}
		off := n
		for i := uint64(0); i < val; i++ {
			k, kn, err := decode(b[off:], depth+1)
			if err != nil {
				return nil, 0, err
			}
			off += kn
			v, vn, err := decode(b[off:], depth+1)
			if err != nil {
				return nil, 0, err
			}
			off += vn
			node.MK = append(node.MK, k)
			node.MV = append(node.MV, v)
		}
		return node, off, nil
	case 6:
		it, k, err := decode(b[n:], depth+1)
		if err != nil {
			return nil, 0, err
		}
		return &Node{K: Tag, U: val, A: []*Node{it}}, n + k, nil
	default: // 7
		switch b[0] {
		case 0xf4:
			return &Node{K: False}, 1, nil
		case 0xf5:
			return &Node{K: True}, 1, nil
		case 0xf6, 0xf7:
			return &Node{K: Null}, 1, nil
		}
		return &Node{K: Float, B: append([]byte{}, b[:n]...)}, n, nil
	}
}

// Decode parses one complete CBOR item and recognises nested encodings inside byte strings.
func Decode(b []byte) (*Node, error) {
	node, n, err := decode(b, 0)
	if err != nil {
		return nil, err
	}
	if n != len(b) {
		return nil, fmt.Errorf("cbor: %d trailing bytes", len(b)-n)
	}
	unwrap(node, 0)
	return node, nil
}

// unwrap looks inside byte strings for the library's nested encodings:
// whole-string CBOR maps/arrays (PointMap, RawMessage) and "u32 count ‖ CBOR map" (polynomial.Exponent).
func unwrap(n *Node, depth int) {
	if depth > 8 {
		return
	}
	switch n.K {
	case Array, Tag:
		for _, c := range n.A {
			unwrap(c, depth)
		}
	case Map:
		for _, c := range n.MV {
			unwrap(c, depth)
		}
	case Bytes:
		try := func(prefix int) bool {
			if len(n.B) <= prefix+1 {
				return false
			}
			in, k, err := decode(n.B[prefix:], 0)
			if err != nil || k != len(n.B)-prefix || (in.K != Map && in.K != Array) {
				return false
			}
			if in.K == Array && len(in.A) == 0 || in.K == Map && len(in.MK) == 0 {
				return false
			}
			n.Prefix = append([]byte{}, n.B[:prefix]...)
			n.Inner = in
			unwrap(in, depth+1)
			return true
		}
		if !try(0) {
			try(4)
		}
	}
}

func head(major byte, v uint64) []byte {
	m := major << 5
	switch {
	case v < 24:
		return []byte{m | byte(v)}
	case v <= 0xff:
		return []byte{m | 24, byte(v)}
	case v <= 0xffff:
		b := []byte{m | 25, 0, 0}
		binary.BigEndian.PutUint16(b[1:], uint16(v))
		return b
	case v <= 0xffffffff:
		b := []byte{m | 26, 0, 0, 0, 0}
		binary.BigEndian.PutUint32(b[1:], uint32(v))
		return b
	}
	b := []byte{m | 27, 0, 0, 0, 0, 0, 0, 0, 0}
	binary.BigEndian.PutUint64(b[1:], v)
	return b
}

// Encode serialises the tree (nested nodes are re-wrapped).
func Encode(n *Node) []byte {
	switch n.K {
	case Uint:
		return head(0, n.U)
	case Nint:
		return head(1, n.U)
	case Bytes:
		payload := n.B
		if n.Inner != nil {
			payload = append(append([]byte{}, n.Prefix...), Encode(n.Inner)...)
		}
		return append(head(2, uint64(len(payload))), payload...)
	case Text:
		return append(head(3, uint64(len(n.S))), n.S...)
	case Array:
		out := head(4, uint64(len(n.A)))
		for _, c := range n.A {
			out = append(out, Encode(c)...)
		}
		return out
	case Map:
		out := head(5, uint64(len(n.MK)))
		for i := range n.MK {
			out = append(out, Encode(n.MK[i])...)
			out = append(out, Encode(n.MV[i])...)
		}
		return out
	case Tag:
		return append(head(6, n.U), Encode(n.A[0])...)
	case False:
		return []byte{0xf4}
	case True:
		return []byte{0xf5}
	case Null:
		return []byte{0xf6}
	case Float, Raw:
		return n.B
	}
	panic("mut: unknown node kind")
}

// Clone deep-copies a tree.
func (n *Node) Clone() *Node {
	if n == nil {
		return nil
	}
	c := *n
	c.B = append([]byte(nil), n.B...)
	c.Prefix = append([]byte(nil), n.Prefix...)
	c.A, c.MK, c.MV = nil, nil, nil
	for _, x := range n.A {
		c.A = append(c.A, x.Clone())
	}
	for _, x := range n.MK {
		c.MK = append(c.MK, x.Clone())
	}
	for _, x := range n.MV {
		c.MV = append(c.MV, x.Clone())
	}
	c.Inner = n.Inner.Clone()
	return &c
}

// Ref addresses one node: its path and the slot that holds it.
type Ref struct {
	Path   string
	Node   *Node
	Parent *Node // nil for the root
	Index  int   // position in Parent.A / Parent.MV, or -1 when Node is Parent.Inner
}

func keyString(k *Node) string {
	switch k.K {
	case Text:
		return k.S
	case Uint:
		return strconv.FormatUint(k.U, 10)
	case Bytes:
		return fmt.Sprintf("%x", k.B)
	}
	return "?"
}

// Walk lists every node of the tree in document order (arrays longer than 6: first 2, middle, last 2).
func Walk(root *Node) []Ref {
	var out []Ref
	var rec func(n, parent *Node, idx int, path string)
	rec = func(n, parent *Node, idx int, path string) {
		out = append(out, Ref{Path: path, Node: n, Parent: parent, Index: idx})
		switch n.K {
		case Array, Tag:
			for i, c := range n.A {
				if len(n.A) > 6 && !(i < 2 || i >= len(n.A)-2 || i == len(n.A)/2) {
					continue
				}
				rec(c, n, i, path+"/"+strconv.Itoa(i))
			}
		case Map:
			for i, c := range n.MV {
				rec(c, n, i, path+"/"+keyString(n.MK[i]))
			}
		case Bytes:
			if n.Inner != nil {
				rec(n.Inner, n, -1, path+"/@")
			}
		}
	}
	rec(root, nil, 0, "")
	return out
}

// Find returns the node with the given path in (a clone of) the tree.
func Find(root *Node, path string) *Ref {
	for _, r := range Walk(root) {
		if r.Path == path {
			rr := r
			return &rr
		}
	}
	return nil
}

// Replace puts x where r.Node was.
func (r *Ref) Replace(x *Node) {
	switch {
	case r.Parent == nil:
		*r.Node = *x
	case r.Index < 0:
		r.Parent.Inner = x
	case r.Parent.K == Map:
		r.Parent.MV[r.Index] = x
	default:
		r.Parent.A[r.Index] = x
	}
}

// Delete removes the node from its parent (map entry or array element). It reports whether that was possible.
func (r *Ref) Delete() bool {
	if r.Parent == nil || r.Index < 0 {
		return false
	}
	p := r.Parent
	if p.K == Map {
		p.MK = append(p.MK[:r.Index:r.Index], p.MK[r.Index+1:]...)
		p.MV = append(p.MV[:r.Index:r.Index], p.MV[r.Index+1:]...)
		return true
	}
	if p.K == Array {
		p.A = append(p.A[:r.Index:r.Index], p.A[r.Index+1:]...)
		return true
	}
	return false
}

// Generic replaces numeric path components, for classification ("Responses/#/X").
func Generic(path string) string {
	parts := strings.Split(path, "/")
	for i, p := range parts {
		if _, err := strconv.Atoi(p); err == nil {
			parts[i] = "#"
		}
	}
	return strings.Join(parts, "/")
}
