package mut

import (
	"math/big"
)

var (
	secpP, _ = new(big.Int).SetString("FFFFFFFFFFFFFFFFFFFFFFFFFFFFFFFFFFFFFFFFFFFFFFFFFFFFFFFEFFFFFC2F", 16)
	secpN, _ = new(big.Int).SetString("FFFFFFFFFFFFFFFFFFFFFFFFFFFFFFFEBAAEDCE6AF48A03BBFD25E8CD0364141", 16)
)

// IsLeaf reports whether a node carries a value (not a container).
func (n *Node) IsLeaf() bool {
	switch n.K {
	case Map, Array, Tag:
		return false
	case Bytes:
		return n.Inner == nil
	}
	return true
}

// LeafKind classifies a leaf for value-level alteration.
func (n *Node) LeafKind() string {
	switch n.K {
	case Bytes:
		switch {
		case len(n.B) == 33 && (n.B[0] == 2 || n.B[0] == 3):
			return "point"
		case len(n.B) == 32:
			return "scalar32"
		case len(n.B) == 0:
			return "empty"
		case len(n.B) < 32:
			return "short-bytes"
		default:
			return "bignum"
		}
	case Uint, Nint:
		return "int"
	case True, False:
		return "bool"
	case Text:
		return "text"
	case Null:
		return "null"
	}
	return "other"
}

// liftX returns y for x on secp256k1 (even y), if any.
func liftX(x *big.Int) (*big.Int, bool) {
	c := new(big.Int).Mul(x, x)
	c.Mul(c, x).Add(c, big.NewInt(7)).Mod(c, secpP)
	e := new(big.Int).Add(secpP, big.NewInt(1))
	e.Rsh(e, 2)
	y := new(big.Int).Exp(c, e, secpP)
	if new(big.Int).Exp(y, big.NewInt(2), secpP).Cmp(c) != 0 {
		return nil, false
	}
	if y.Bit(0) == 1 {
		y.Sub(secpP, y)
	}
	return y, true
}

// AlterValue returns a leaf holding a DIFFERENT value that is still well-formed for its kind:
// another curve point, another scalar below the group order, another big number of the same length,
// a flipped boolean, an integer off by one. variant selects among a few alternatives.
// ok is false when the leaf kind has no meaningful value-level alteration.
func AlterValue(n *Node, variant int) (*Node, bool) {
	switch n.LeafKind() {
	case "point":
		b := append([]byte{}, n.B...)
		if variant%2 == 0 {
			b[0] ^= 1 // the negated point: valid, different
			return &Node{K: Bytes, B: b}, true
		}
		// next valid x-coordinate
		x := new(big.Int).SetBytes(b[1:])
		for i := 0; i < 256; i++ {
			x.Add(x, big.NewInt(1)).Mod(x, secpP)
			if _, ok := liftX(x); ok {
				out := make([]byte, 33)
				out[0] = b[0]
				x.FillBytes(out[1:])
				return &Node{K: Bytes, B: out}, true
			}
		}
		return nil, false
	case "scalar32":
		x := new(big.Int).SetBytes(n.B)
		d := big.NewInt(1)
		switch variant % 4 {
		case 1:
			d = big.NewInt(-1)
		case 2:
			// the negated scalar: the value whose image differs from the original's only in the sign of y
			if x.Sign() > 0 && x.Cmp(secpN) < 0 && new(big.Int).Lsh(x, 1).Cmp(secpN) != 0 {
				out := make([]byte, 32)
				new(big.Int).Sub(secpN, x).FillBytes(out)
				return &Node{K: Bytes, B: out}, true
			}
		case 3:
			// a valid-looking unrelated scalar
			d = new(big.Int).Rsh(secpN, 3)
			x.Add(x, d).Mod(x, secpN)
			d = big.NewInt(0)
		}
		x.Add(x, d)
		if x.Sign() <= 0 {
			x = big.NewInt(2)
		}
		if x.Cmp(secpN) >= 0 {
			x.Sub(x, big.NewInt(2))
		}
		out := make([]byte, 32)
		x.FillBytes(out)
		return &Node{K: Bytes, B: out}, true
	case "bignum", "short-bytes":
		b := append([]byte{}, n.B...)
		switch variant % 3 {
		case 0:
			b[len(b)-1] ^= 1
		case 1:
			b[len(b)-1] ^= 2
		default:
			b[len(b)/2] ^= 0x10
		}
		return &Node{K: Bytes, B: b}, true
	case "int":
		c := *n
		if variant%2 == 0 || n.U == 0 {
			c.U = n.U + 1
		} else {
			c.U = n.U - 1
		}
		return &c, true
	case "bool":
		if n.K == True {
			return &Node{K: False}, true
		}
		return &Node{K: True}, true
	}
	return nil, false
}
