package mut

// ShapeKinds are the shape-level malformations: what a hostile encoder can put where a well-formed
// value is expected.
var ShapeKinds = []string{"null", "absent", "empty-bytes", "zero-bytes", "truncate", "extend", "huge-bytes", "type-int", "type-text", "type-array", "type-map", "type-bool",
	"empty-map", "empty-array", "int-minus1", "int-small", "int-2^32", "int-max", "dup-entry", "dup-key-other-value", "drop-entry", "unknown-key", "identity-point", "flip-low-bit",
	"drop-leading-byte", "copy-sibling", "array-grow", "array-100k", "count-prefix-max", "count-prefix-zero", "count-prefix-plus1", "count-prefix-wrap", "nested-garbage", "nested-truncate"}

// Shape applies malformation kind at node number pick (mod the number of nodes). It reports the path and
// whether the malformation was applicable there.
func Shape(root *Node, pick int, kind string, arg int) (path string, ok bool) {
	refs := Walk(root)
	r := refs[pick%len(refs)]
	n := r.Node
	path = r.Path
	switch kind {
	case "null":
		r.Replace(&Node{K: Null})
	case "absent", "drop-entry":
		return path, r.Delete()
	case "empty-bytes":
		if n.K != Bytes {
			return path, false
		}
		r.Replace(&Node{K: Bytes})
	case "zero-bytes":
		if n.K != Bytes || n.Inner != nil || len(n.B) == 0 {
			return path, false
		}
		r.Replace(&Node{K: Bytes, B: make([]byte, len(n.B))})
	case "truncate":
		if n.K != Bytes || n.Inner != nil || len(n.B) < 2 {
			return path, false
		}
		k := 1 + arg%3
		if k >= len(n.B) {
			k = 1
		}
		r.Replace(&Node{K: Bytes, B: n.B[:len(n.B)-k]})
	case "extend":
		if n.K != Bytes || n.Inner != nil {
			return path, false
		}
		r.Replace(&Node{K: Bytes, B: append(append([]byte{}, n.B...), byte(arg))})
	case "huge-bytes":
		if n.K != Bytes {
			return path, false
		}
		b := make([]byte, 1<<20)
		for i := range b {
			b[i] = byte(arg + i)
		}
		r.Replace(&Node{K: Bytes, B: b})
	case "type-int":
		r.Replace(&Node{K: Uint, U: uint64(arg)})
	case "type-text":
		r.Replace(&Node{K: Text, S: "x"})
	case "type-bool":
		r.Replace(&Node{K: True})
	case "type-array":
		r.Replace(&Node{K: Array, A: []*Node{n.Clone()}})
	case "type-map":
		r.Replace(&Node{K: Map, MK: []*Node{{K: Text, S: "k"}}, MV: []*Node{n.Clone()}})
	case "empty-map":
		r.Replace(&Node{K: Map})
	case "empty-array":
		r.Replace(&Node{K: Array})
	case "int-minus1", "int-small", "int-2^32", "int-max":
		if n.K != Uint && n.K != Nint {
			return path, false
		}
		switch kind {
		case "int-minus1":
			r.Replace(&Node{K: Nint, U: 0})
		case "int-small":
			r.Replace(&Node{K: Uint, U: uint64(arg % 6)})
		case "int-2^32":
			r.Replace(&Node{K: Uint, U: 1 << 32})
		default:
			r.Replace(&Node{K: Uint, U: ^uint64(0)})
		}
	case "dup-entry", "dup-key-other-value":
		p := r.Parent
		if p == nil || r.Index < 0 {
			return path, false
		}
		if p.K == Map {
			v := p.MV[r.Index].Clone()
			if kind == "dup-key-other-value" {
				v = p.MV[(r.Index+1)%len(p.MV)].Clone()
			}
			p.MK = append(p.MK, p.MK[r.Index].Clone())
			p.MV = append(p.MV, v)
		} else if p.K == Array {
			p.A = append(p.A, p.A[r.Index].Clone())
		} else {
			return path, false
		}
	case "unknown-key":
		if n.K != Map {
			return path, false
		}
		n.MK = append(n.MK, &Node{K: Text, S: "Unknown"})
		n.MV = append(n.MV, &Node{K: Bytes, B: []byte{1, 2, 3}})
	case "identity-point":
		if n.K != Bytes || len(n.B) != 33 {
			return path, false
		}
		id := make([]byte, 33)
		id[0] = 2
		r.Replace(&Node{K: Bytes, B: id})
	case "flip-low-bit":
		if n.K != Bytes || n.Inner != nil || len(n.B) == 0 {
			return path, false
		}
		b := append([]byte{}, n.B...)
		b[len(b)-1] ^= 1
		r.Replace(&Node{K: Bytes, B: b})
	case "drop-leading-byte":
		if n.K != Bytes || n.Inner != nil || len(n.B) < 2 {
			return path, false
		}
		r.Replace(&Node{K: Bytes, B: n.B[1:]})
	case "copy-sibling":
		p := r.Parent
		if p == nil || p.K != Map || len(p.MV) < 2 {
			return path, false
		}
		src := p.MV[(r.Index+1+arg)%len(p.MV)]
		if src == n {
			return path, false
		}
		r.Replace(src.Clone())
	case "array-grow":
		if n.K != Array || len(n.A) == 0 {
			return path, false
		}
		n.A = append(n.A, n.A[arg%len(n.A)].Clone())
	case "array-100k":
		if n.K != Array || len(n.A) == 0 {
			return path, false
		}
		el := Encode(n.A[0])
		if len(el) > 80 {
			return path, false
		}
		for len(n.A) < 100000 {
			n.A = append(n.A, &Node{K: Raw, B: el})
		}
	case "count-prefix-max", "count-prefix-zero", "count-prefix-plus1", "count-prefix-wrap":
		if n.K != Bytes || n.Inner == nil || len(n.Prefix) != 4 {
			return path, false
		}
		switch kind {
		case "count-prefix-wrap":
			// the smallest counts whose product with a plausible element size (compressed point, scalar, uncompressed
			// point, x/y pair) wraps around 2^32 to a tiny value: a bound computed in 32 bits lets them through
			e := []uint64{33, 32, 65, 64}[arg%4]
			v := (uint64(1)<<32+e-1)/e + uint64(arg/4%3)
			n.Prefix = []byte{byte(v >> 24), byte(v >> 16), byte(v >> 8), byte(v)}
		case "count-prefix-max":
			n.Prefix = []byte{0xff, 0xff, 0xff, 0xff}
		case "count-prefix-zero":
			n.Prefix = []byte{0, 0, 0, 0}
		default:
			n.Prefix = []byte{n.Prefix[0], n.Prefix[1], n.Prefix[2], n.Prefix[3] + 1}
		}
	case "nested-garbage":
		if n.K != Bytes || n.Inner == nil {
			return path, false
		}
		r.Replace(&Node{K: Bytes, B: append(append([]byte{}, n.Prefix...), 0xff, 0x00, byte(arg))})
	case "nested-truncate":
		if n.K != Bytes || n.Inner == nil {
			return path, false
		}
		full := Encode(n)
		// re-wrap a shortened payload
		payload := append(append([]byte{}, n.Prefix...), Encode(n.Inner)...)
		_ = full
		k := 1 + arg%3
		if k >= len(payload) {
			return path, false
		}
		r.Replace(&Node{K: Bytes, B: payload[:len(payload)-k]})
	default:
		return path, false
	}
	return path, true
}

// Applicable lists the node numbers (indices into Walk) where the malformation kind applies.
func Applicable(root *Node, kind string) []int {
	var out []int
	n := len(Walk(root))
	for i := 0; i < n; i++ {
		c := root.Clone()
		if _, ok := Shape(c, i, kind, 0); ok {
			out = append(out, i)
		}
	}
	return out
}
