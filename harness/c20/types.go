package c20

import "github.com/taurusgroup/multi-party-sig/pkg/math/curve"

type curvePoint = curve.Point
type curveScalar = curve.Secp256k1Scalar
