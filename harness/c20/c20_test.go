package c20

import (
	"errors"
	"fmt"
	"sort"
	"strings"
	"testing"

	"github.com/taurusgroup/multi-party-sig/pkg/ecdsa"
	"github.com/taurusgroup/multi-party-sig/pkg/party"
	"github.com/taurusgroup/multi-party-sig/pkg/protocol"
	"github.com/taurusgroup/multi-party-sig/protocols/cmp"
	"github.com/taurusgroup/multi-party-sig/protocols/cmp/presign"
	"github.com/taurusgroup/multi-party-sig/protocols/doerner"
	"github.com/taurusgroup/multi-party-sig/protocols/frost"
	"github.com/taurusgroup/multi-party-sig/verifharness/ev"
	"github.com/taurusgroup/multi-party-sig/verifharness/fix"
	"github.com/taurusgroup/multi-party-sig/verifharness/pbt"
	"github.com/taurusgroup/multi-party-sig/verifharness/proto"
	"github.com/taurusgroup/multi-party-sig/verifharness/sim"
	"github.com/taurusgroup/multi-party-sig/verifharness/tape"
	"pgregory.net/rapid"
)

func TestMain(m *testing.M)   { pbt.Main(m) }
func TestReplay(t *testing.T) { pbt.Replay(t) }
func TestCorpus(t *testing.T) { pbt.Corpus(t) }

// params are the arguments one party passes to a start function.
type params struct {
	self    party.ID
	other   party.ID // doerner
	ids     []party.ID
	t       int
	msg     []byte
	signers []party.ID
	cmp     *cmp.Config
	frost   *frost.Config
	tap     *frost.TaprootConfig
	dR      *doerner.ConfigReceiver
	dS      *doerner.ConfigSender
	pre     *ecdsa.PreSignature
}

var funcs = []string{"cmp.Keygen", "cmp.Refresh", "cmp.Sign", "cmp.Presign", "cmp.PresignOnline", "cmp.PresignFull",
	"frost.Keygen", "frost.KeygenTaproot", "frost.Refresh", "frost.RefreshTaproot", "frost.Sign", "frost.SignTaproot",
	"doerner.Keygen", "doerner.RefreshReceiver", "doerner.RefreshSender", "doerner.SignReceiver", "doerner.SignSender"}

func twoParty(fn string) bool { return strings.HasPrefix(fn, "doerner.") }

// start evaluates the public start function (this alone may panic: the statement forbids it).
func start(fn string, p params) protocol.StartFunc {
	switch fn {
	case "cmp.Keygen":
		return cmp.Keygen(proto.Group, p.self, p.ids, p.t, nil)
	case "cmp.Refresh":
		return cmp.Refresh(p.cmp, nil)
	case "cmp.Sign":
		return cmp.Sign(p.cmp, p.signers, p.msg, nil)
	case "cmp.Presign":
		return cmp.Presign(p.cmp, p.signers, nil)
	case "cmp.PresignOnline":
		return cmp.PresignOnline(p.cmp, p.pre, p.msg, nil)
	case "cmp.PresignFull":
		return presign.StartPresign(p.cmp, p.signers, p.msg, nil)
	case "frost.Keygen":
		return frost.Keygen(proto.Group, p.self, p.ids, p.t)
	case "frost.KeygenTaproot":
		return frost.KeygenTaproot(p.self, p.ids, p.t)
	case "frost.Refresh":
		return frost.Refresh(p.frost, p.ids)
	case "frost.RefreshTaproot":
		return frost.RefreshTaproot(p.tap, p.ids)
	case "frost.Sign":
		return frost.Sign(p.frost, p.signers, p.msg)
	case "frost.SignTaproot":
		return frost.SignTaproot(p.tap, p.signers, p.msg)
	case "doerner.Keygen":
		return doerner.Keygen(proto.Group, p.self == p.ids[0], p.self, p.other, nil)
	case "doerner.RefreshReceiver":
		return doerner.RefreshReceiver(p.dR, p.self, p.other, nil)
	case "doerner.RefreshSender":
		return doerner.RefreshSender(p.dS, p.self, p.other, nil)
	case "doerner.SignReceiver":
		return doerner.SignReceiver(p.dR, p.self, p.other, p.msg, nil)
	case "doerner.SignSender":
		return doerner.SignSender(p.dS, p.self, p.other, p.msg, nil)
	}
	panic("unknown function " + fn)
}

// peerFn is the function the OTHER parties of the session call (Doerner has two roles).
func peerFn(fn string) string {
	switch fn {
	case "doerner.RefreshReceiver":
		return "doerner.RefreshSender"
	case "doerner.RefreshSender":
		return "doerner.RefreshReceiver"
	case "doerner.SignReceiver":
		return "doerner.SignSender"
	case "doerner.SignSender":
		return "doerner.SignReceiver"
	}
	return fn
}

// ---- fixtures (cached per process)

type fixture struct {
	cmp, frost, tap *proto.Material
	doer            *proto.Material
	pre             map[party.ID]*ecdsa.PreSignature
}

var fx *fixture

const fxN, fxT = 3, 1

func fixtures() *fixture {
	if fx != nil {
		return fx
	}
	ids := fix.IDs("letters", fxN, 0)
	f := &fixture{}
	var err error
	if f.cmp, err = proto.Deal(proto.SchemeCMP, 11, ids, fxT); err != nil {
		panic(err)
	}
	if f.frost, err = proto.Deal(proto.SchemeFrost, 12, ids, fxT); err != nil {
		panic(err)
	}
	if f.tap, err = proto.Deal(proto.SchemeFrostTap, 13, ids, fxT); err != nil {
		panic(err)
	}
	if f.doer, err = proto.Keygen(proto.SchemeDoerner, 14, ids[:2], 1, sim.FIFO); err != nil {
		panic(err)
	}
	// presignatures for all three parties
	res, _, err := proto.RunHonest(f.cmp.SignSession(proto.CMPPresign, f.cmp.IDs, nil, []byte("c20-pre")), 15, sim.FIFO)
	if err != nil {
		panic(err)
	}
	if f.pre, err = proto.PreSignatures(res); err != nil {
		panic(err)
	}
	fx = f
	return f
}

// baseline returns valid parameters of party id for function fn (fresh deep copies).
func baseline(fn string, id party.ID) params {
	f := fixtures()
	p := params{self: id, t: fxT, msg: []byte("c20: a perfectly good message..")}
	switch {
	case strings.HasPrefix(fn, "cmp."):
		m := f.cmp.Clone()
		p.ids, p.signers, p.cmp = append([]party.ID{}, m.IDs...), append([]party.ID{}, m.IDs...), m.CMP[id]
		if fn == "cmp.PresignOnline" {
			pre := *f.pre[id]
			p.pre = &pre
		}
	case fn == "frost.Keygen" || fn == "frost.Refresh" || fn == "frost.Sign":
		m := f.frost.Clone()
		p.ids, p.signers, p.frost = append([]party.ID{}, m.IDs...), append([]party.ID{}, m.IDs...), m.Frost[id]
	case strings.HasPrefix(fn, "frost."):
		m := f.tap.Clone()
		p.ids, p.signers, p.tap = append([]party.ID{}, m.IDs...), append([]party.ID{}, m.IDs...), m.FrostTap[id]
	default:
		m := f.doer.Clone()
		p.ids = append([]party.ID{}, m.IDs...)
		p.other = m.IDs[0]
		if id == m.IDs[0] {
			p.other = m.IDs[1]
		}
		p.dR, p.dS = m.DoernerR, m.DoernerS
	}
	return p
}

// sessionParties lists the parties of the baseline session of fn, the first being the one under test.
func sessionParties(fn string) []party.ID {
	f := fixtures()
	switch fn {
	case "doerner.Keygen", "doerner.RefreshReceiver", "doerner.SignReceiver":
		return []party.ID{f.doer.IDs[0], f.doer.IDs[1]}
	case "doerner.RefreshSender", "doerner.SignSender":
		return []party.ID{f.doer.IDs[1], f.doer.IDs[0]}
	}
	return append([]party.ID{}, f.cmp.IDs...)
}

// ---- invalid-parameter lattice

type bad struct {
	name   string
	shared bool // a session-wide parameter: honest peers are given the same value
	ok     func(fn string) bool
	apply  func(fn string, p *params)
}

func hasT(fn string) bool {
	return fn == "cmp.Keygen" || fn == "frost.Keygen" || fn == "frost.KeygenTaproot"
}
func hasIDs(fn string) bool {
	return hasT(fn) || fn == "frost.Refresh" || fn == "frost.RefreshTaproot"
}
func hasSigners(fn string) bool {
	return fn == "cmp.Sign" || fn == "cmp.Presign" || fn == "cmp.PresignFull" || fn == "frost.Sign" || fn == "frost.SignTaproot"
}
func hasMsg(fn string) bool {
	return fn == "cmp.Sign" || fn == "cmp.PresignOnline" || fn == "cmp.PresignFull" || fn == "doerner.SignReceiver" || fn == "doerner.SignSender"
}
func hasConfig(fn string) bool {
	return !hasT(fn) && fn != "doerner.Keygen"
}

func largest(ids []party.ID) party.ID {
	var m party.ID
	for _, id := range ids {
		if id > m {
			m = id
		}
	}
	return m
}

func smallest(ids []party.ID) party.ID {
	m := largest(ids)
	for _, id := range ids {
		if id < m {
			m = id
		}
	}
	return m
}

func setThreshold(fn string, p *params, t int) {
	p.t = t
	if p.cmp != nil {
		p.cmp.Threshold = t
	}
	if p.frost != nil {
		p.frost.Threshold = t
	}
	if p.tap != nil {
		p.tap.Threshold = t
	}
}

var bads = []bad{
	{"t=-1", true, func(fn string) bool { return !twoParty(fn) }, func(fn string, p *params) { setThreshold(fn, p, -1) }},
	{"t=n", true, func(fn string) bool { return !twoParty(fn) }, func(fn string, p *params) { setThreshold(fn, p, fxN) }},
	{"t=n+1", true, func(fn string) bool { return !twoParty(fn) }, func(fn string, p *params) { setThreshold(fn, p, fxN+1) }},
	{"t=maxuint32", true, func(fn string) bool { return !twoParty(fn) }, func(fn string, p *params) { setThreshold(fn, p, 1<<32-1) }},
	{"t=2^32", true, func(fn string) bool { return !twoParty(fn) }, func(fn string, p *params) { setThreshold(fn, p, 1<<32) }},
	{"ids-dup-other", true, hasIDs, func(fn string, p *params) { p.ids = append(p.ids, otherOf(p.ids, p.self)) }},
	{"ids-dup-self", true, hasIDs, func(fn string, p *params) { p.ids = append(p.ids, p.self) }},
	{"ids-dup-largest", true, hasIDs, func(fn string, p *params) { p.ids = append(p.ids, largest(p.ids)) }},
	{"ids-dup-smallest-first", true, hasIDs, func(fn string, p *params) { p.ids = append([]party.ID{smallest(p.ids)}, p.ids...) }},
	{"ids-self-missing", false, hasIDs, func(fn string, p *params) { p.ids = without(p.ids, p.self) }},
	{"ids-empty", true, hasIDs, func(fn string, p *params) { p.ids = []party.ID{} }},
	{"ids-nil", true, hasIDs, func(fn string, p *params) { p.ids = nil }},
	{"ids-empty-string", true, hasIDs, func(fn string, p *params) { p.ids = append(without(p.ids, otherOf(p.ids, p.self)), "") }},
	{"ids-foreign", true, func(fn string) bool { return fn == "frost.Refresh" || fn == "frost.RefreshTaproot" }, func(fn string, p *params) { p.ids = append(p.ids, "zz") }},
	{"doerner-same-ids", false, twoParty, func(fn string, p *params) { p.other = p.self }},
	{"doerner-empty-other", false, twoParty, func(fn string, p *params) { p.other = "" }},
	{"doerner-empty-self", false, twoParty, func(fn string, p *params) { p.self = "" }},
	{"signers-too-few", true, hasSigners, func(fn string, p *params) { p.signers = []party.ID{p.self} }},
	{"signers-non-shareholder", true, hasSigners, func(fn string, p *params) { p.signers = append(p.signers, "zz") }},
	{"signers-dup", true, hasSigners, func(fn string, p *params) { p.signers = append(p.signers, otherOf(p.signers, p.self)) }},
	{"signers-dup-largest", true, hasSigners, func(fn string, p *params) { p.signers = append(p.signers, largest(p.signers)) }},
	{"signers-self-missing", false, hasSigners, func(fn string, p *params) { p.signers = without(p.signers, p.self) }},
	{"signers-empty", true, hasSigners, func(fn string, p *params) { p.signers = []party.ID{} }},
	{"signers-nil", true, hasSigners, func(fn string, p *params) { p.signers = nil }},
	{"msg-nil", true, hasMsg, func(fn string, p *params) { p.msg = nil }},
	{"msg-empty", true, hasMsg, func(fn string, p *params) { p.msg = []byte{} }},
	{"msg-empty-of-buffer", true, hasMsg, func(fn string, p *params) { p.msg = make([]byte, 32)[:0] }},
	{"config-nil", false, hasConfig, func(fn string, p *params) { p.cmp, p.frost, p.tap, p.dR, p.dS = nil, nil, nil, nil, nil }},
	{"config-zero-value", false, hasConfig, func(fn string, p *params) {
		if p.cmp != nil {
			p.cmp = &cmp.Config{}
		}
		if p.frost != nil {
			p.frost = &frost.Config{}
		}
		if p.tap != nil {
			p.tap = &frost.TaprootConfig{}
		}
		if p.dR != nil {
			p.dR, p.dS = &doerner.ConfigReceiver{}, &doerner.ConfigSender{}
		}
	}},
	{"config-secret-nil", false, hasConfig, func(fn string, p *params) {
		if p.cmp != nil {
			p.cmp.ECDSA = nil
		}
		if p.frost != nil {
			p.frost.PrivateShare = nil
		}
		if p.tap != nil {
			p.tap.PrivateShare = nil
		}
		if p.dR != nil {
			p.dR.SecretShare, p.dS.SecretShare = nil, nil
		}
	}},
	{"config-secret-zero", false, hasConfig, func(fn string, p *params) {
		if p.cmp != nil {
			p.cmp.ECDSA = proto.Group.NewScalar()
		}
		if p.frost != nil {
			p.frost.PrivateShare = proto.Group.NewScalar()
		}
		if p.tap != nil {
			p.tap.PrivateShare = p.tap.PrivateShare.Sub(p.tap.PrivateShare).(interface{}).(*curveScalar)
		}
		if p.dR != nil {
			p.dR.SecretShare, p.dS.SecretShare = proto.Group.NewScalar(), proto.Group.NewScalar()
		}
	}},
	{"config-public-nil", false, hasConfig, func(fn string, p *params) {
		if p.cmp != nil {
			p.cmp.Public = nil
		}
		if p.frost != nil {
			p.frost.VerificationShares = nil
		}
		if p.tap != nil {
			p.tap.VerificationShares = nil
		}
		if p.dR != nil {
			p.dR.Public, p.dS.Public = nil, nil
		}
	}},
	{"config-public-self-missing", false, func(fn string) bool { return hasConfig(fn) && !twoParty(fn) }, func(fn string, p *params) {
		if p.cmp != nil {
			delete(p.cmp.Public, p.self)
		}
		if p.frost != nil {
			delete(p.frost.VerificationShares.Points, p.self)
		}
		if p.tap != nil {
			delete(p.tap.VerificationShares, p.self)
		}
	}},
	{"config-paillier-nil", false, func(fn string) bool { return strings.HasPrefix(fn, "cmp.") && hasConfig(fn) }, func(fn string, p *params) { p.cmp.Paillier = nil }},
	{"config-setup-nil", false, func(fn string) bool { return fn == "doerner.SignReceiver" || fn == "doerner.SignSender" }, func(fn string, p *params) {
		p.dR.Setup, p.dS.Setup = nil, nil
	}},
	{"pre-nil", false, func(fn string) bool { return fn == "cmp.PresignOnline" }, func(fn string, p *params) { p.pre = nil }},
	{"pre-R-identity", false, func(fn string) bool { return fn == "cmp.PresignOnline" }, func(fn string, p *params) { p.pre.R = proto.Group.NewPoint() }},
	{"pre-kshare-zero", false, func(fn string) bool { return fn == "cmp.PresignOnline" }, func(fn string, p *params) { p.pre.KShare = proto.Group.NewScalar() }},
	{"pre-kshare-nil", false, func(fn string) bool { return fn == "cmp.PresignOnline" }, func(fn string, p *params) { p.pre.KShare = nil }},
	{"pre-id-short", false, func(fn string) bool { return fn == "cmp.PresignOnline" }, func(fn string, p *params) { p.pre.ID = p.pre.ID[:16] }},
	{"pre-id-nil", false, func(fn string) bool { return fn == "cmp.PresignOnline" }, func(fn string, p *params) { p.pre.ID = nil }},
	{"pre-maps-nil", false, func(fn string) bool { return fn == "cmp.PresignOnline" }, func(fn string, p *params) { p.pre.RBar, p.pre.S = nil, nil }},
	{"pre-rbar-entry-missing", false, func(fn string) bool { return fn == "cmp.PresignOnline" }, func(fn string, p *params) {
		rb := map[party.ID]curvePoint{}
		for k, v := range p.pre.RBar.Points {
			if k != otherOf(p.ids, p.self) {
				rb[k] = v
			}
		}
		p.pre.RBar = party.NewPointMap(rb)
	}},
	{"pre-extra-signer", false, func(fn string) bool { return fn == "cmp.PresignOnline" }, func(fn string, p *params) {
		rb, s := map[party.ID]curvePoint{}, map[party.ID]curvePoint{}
		for k, v := range p.pre.RBar.Points {
			rb[k] = v
		}
		for k, v := range p.pre.S.Points {
			s[k] = v
		}
		rb["zz"], s["zz"] = proto.Group.NewBasePoint(), proto.Group.NewBasePoint()
		p.pre.RBar, p.pre.S = party.NewPointMap(rb), party.NewPointMap(s)
	}},
}

func otherOf(ids []party.ID, self party.ID) party.ID {
	for _, id := range ids {
		if id != self {
			return id
		}
	}
	return "b"
}

func without(ids []party.ID, x party.ID) []party.ID {
	out := []party.ID{}
	for _, id := range ids {
		if id != x {
			out = append(out, id)
		}
	}
	return out
}

func badByName(n string) *bad {
	for i := range bads {
		if bads[i].name == n {
			return &bads[i]
		}
	}
	return nil
}

type Case struct {
	Func string
	Bads []string
	Seed uint64
}

func construct(fn string, p params, leader bool) (h protocol.Handler, err error, pan string) {
	panicked, msg := ev.Guard(func() {
		f := start(fn, p)
		if twoParty(fn) {
			h, err = protocol.NewTwoPartyHandler(f, []byte("c20"), leader)
		} else {
			h, err = protocol.NewMultiHandler(f, []byte("c20"))
		}
	})
	if panicked {
		return nil, nil, msg
	}
	return h, err, ""
}

var lastOutcome string

func run(c Case) *pbt.Fail {
	lastOutcome = ""
	fn := c.Func
	parties := sessionParties(fn)
	me := parties[0]
	key := fn + ":" + strings.Join(c.Bads, "+")
	p := baseline(fn, me)
	for _, b := range c.Bads {
		badByName(b).apply(fn, &p)
	}
	mux := tape.Install(c.Seed)
	defer mux.Uninstall()
	if fn == "cmp.Keygen" || fn == "cmp.Refresh" {
		defer fix.InstallPrimeSource(3)()
	}
	n := sim.New(mux)
	n.ConstructTimeout = 30e9
	var perr string
	_, err := n.Add(string(me), me, func() (protocol.Handler, error) {
		h, e, pan := construct(fn, p, isLeader(fn, me))
		perr = pan
		if pan != "" {
			return nil, errors.New("panic")
		}
		return h, e
	})
	if perr != "" {
		lastOutcome = "panic"
		return pbt.Failf("panic-at-start:"+key, "constructing the handler panics:\n"+perr)
	}
	var he *sim.HangError
	if errors.As(err, &he) {
		if he.Definite {
			return pbt.Failf("hang-at-start:"+key, he.Stack)
		}
		return pbt.Failf("inconclusive:hang", err.Error())
	}
	if err != nil {
		lastOutcome = "refused"
		return nil // refused at start: exactly what the property asks for
	}
	// accepted: it must then really be a valid run, together with honest peers given the same session-wide parameters
	lastOutcome = "accepted"
	for _, b := range c.Bads {
		// an empty message is invalid by the statement itself, whatever the protocol would make of it (the only start
		// function for which "no message" is a documented mode is the internal presign entry, where it selects the
		// offline protocol)
		if (b == "msg-nil" || b == "msg-empty" || b == "msg-empty-of-buffer") && fn != "cmp.PresignFull" {
			lastOutcome = "accepted-empty-message"
			return pbt.Failf("accepted-empty-message:"+fn+":"+b, "the start function accepts an empty message ("+b+") instead of returning an error")
		}
	}
	for _, id := range parties[1:] {
		q := baseline(peerFn(fn), id)
		for _, b := range c.Bads {
			if bb := badByName(b); bb.shared {
				bb.apply(peerFn(fn), &q)
			}
		}
		var pan string
		_, err := n.Add(string(id), id, func() (protocol.Handler, error) {
			h, e, pn := construct(peerFn(fn), q, isLeader(peerFn(fn), id))
			pan = pn
			if pn != "" {
				return nil, errors.New("panic")
			}
			return h, e
		})
		if pan != "" {
			return pbt.Failf("panic-at-start:"+key, fmt.Sprintf("honest peer %q given the same session parameters panics while starting:\n%s", id, pan))
		}
		_ = err // a peer that refuses simply does not take part
	}
	n.Start()
	if err := n.Run(sim.FIFO, 100000); err != nil {
		var pe *sim.PanicError
		if errors.As(err, &pe) {
			lastOutcome = "accepted-then-crash"
			return pbt.Failf("accepted-then-crash:"+key, fmt.Sprintf("the session was allowed to start and a party later panics: %v\n%s", pe, trimStack(pe.Stack)))
		}
		return pbt.Failf("inconclusive:run", err.Error())
	}
	// every party that took part must have finished with a valid result
	for _, q := range n.Parties {
		o := q.Outcome()
		if !o.Finished {
			lastOutcome = "accepted-then-no-valid-run"
			return pbt.Failf("accepted-invalid-parameters:"+key, fmt.Sprintf("the handler was constructed but the session cannot complete: party %q ends with %v", q.Name, o.Err))
		}
	}
	if f := checkResults(fn, n, p.msg); f != "" {
		lastOutcome = "accepted-then-wrong-result"
		return pbt.Failf("accepted-invalid-parameters:"+key, "the session completed with an invalid result: "+f)
	}
	lastOutcome = "accepted-and-valid"
	return nil
}

func trimStack(s string) string {
	var keep []string
	for _, l := range strings.Split(s, "\n") {
		if strings.Contains(l, "/repo/") {
			keep = append(keep, strings.TrimSpace(l))
		}
		if len(keep) > 8 {
			break
		}
	}
	return strings.Join(keep, "\n")
}

func isLeader(fn string, id party.ID) bool {
	return fn == "doerner.Keygen" && id == fixtures().doer.IDs[0] || fn == "doerner.RefreshReceiver" || fn == "doerner.SignReceiver"
}

func checkResults(fn string, n *sim.Net, msg []byte) string {
	f := fixtures()
	for _, q := range n.Parties {
		v := q.Outcome().Value
		var err error
		switch fn {
		case "cmp.Sign", "cmp.PresignOnline", "cmp.PresignFull":
			if fn == "cmp.PresignFull" && len(msg) == 0 {
				// without a message this start function IS the offline presigning protocol
				if _, ok := v.(*ecdsa.PreSignature); !ok {
					err = fmt.Errorf("result has type %T, want *ecdsa.PreSignature", v)
				}
				break
			}
			err = proto.CheckSignature(proto.CMPSign, v, f.cmp.Pub, msg)
		case "frost.Sign":
			err = proto.CheckSignature(proto.FrostSign, v, f.frost.Pub, msg)
		case "frost.SignTaproot":
			err = proto.CheckSignature(proto.FrostSignTap, v, f.tap.Pub, msg)
		case "doerner.SignReceiver", "doerner.SignSender":
			err = proto.CheckSignature(proto.DoernerSign, v, f.doer.Pub, msg)
		}
		if err != nil {
			return fmt.Sprintf("party %q: %v", q.Name, err)
		}
	}
	return ""
}

var prop = pbt.Define(pbt.Prop[Case]{Kind: "invalid-start", Run: run, Journal: true, Class: func(c Case) (string, bool) {
	b := append([]string{}, c.Bads...)
	sort.Strings(b)
	return fmt.Sprintf("%s|%s|%s", c.Func, strings.Join(b, "+"), lastOutcome), true
}})

func group(name string) string {
	if i := strings.IndexAny(name, "-="); i > 0 {
		return name[:i]
	}
	return name
}

func applicable(fn string) []string {
	var out []string
	for _, b := range bads {
		if b.ok(fn) {
			out = append(out, b.name)
		}
	}
	return out
}

// TestSingles enumerates every (start function, single invalid parameter) pair.
func TestSingles(t *testing.T) {
	rec := ev.Get()
	i := 0
	for _, fn := range funcs {
		for _, b := range applicable(fn) {
			i++
			if !rec.Mine(i) {
				continue
			}
			prop.One(t, Case{Func: fn, Bads: []string{b}, Seed: 1})
		}
	}
	rec.Exhaustive("all (start function, single invalid parameter) pairs", true)
}

// TestPairs samples pairs of invalid parameters.
func TestPairs(t *testing.T) {
	rapid.Check(t, func(rt *rapid.T) {
		fn := rapid.SampledFrom(funcs).Draw(rt, "func")
		ap := applicable(fn)
		a := rapid.SampledFrom(ap).Draw(rt, "bad1")
		b := rapid.SampledFrom(ap).Draw(rt, "bad2")
		bs := []string{a}
		// pairs combine parameters of different kinds (two changes to the same parameter can cancel out)
		if group(b) != group(a) {
			bs = append(bs, b)
		}
		prop.One(rt, Case{Func: fn, Bads: bs, Seed: rapid.Uint64Range(1, 1000).Draw(rt, "seed")})
	})
}
