// Package ev records what a check actually explored (evidence), classifies violations against the
// committed known-findings file, writes replay files and keeps a crash journal.
package ev

import (
	"encoding/json"
	"fmt"
	"os"
	"path/filepath"
	"regexp"
	"runtime/debug"
	"sort"
	"strconv"
	"strings"
	"sync"
)

// Fataler is the part of testing.T / rapid.T that ev needs.
type Fataler interface {
	Fatalf(format string, args ...interface{})
}

type knownFinding struct {
	Status    string `json:"status"`
	Property  string `json:"property"`
	Signature string `json:"signature"`
	What      string `json:"what"`
	re        *regexp.Regexp
}

// Violation is what a failing oracle reports.
type Violation struct {
	Property  string      `json:"property"`
	Kind      string      `json:"kind"` // which replay entry understands Case
	Signature string      `json:"signature"`
	Detail    string      `json:"detail"`
	Case      interface{} `json:"case"`
}

type Recorder struct {
	mu          sync.Mutex
	Prop        string
	Tier        string
	Shard       int
	NShards     int
	Seed        int64
	out         string
	evaluations int64
	classes     map[string]int64
	nontrivial  map[string]struct{}
	samples     []interface{}
	sampleSeen  int64
	counters    map[string]int64
	known       []knownFinding
	knownHits   map[string]int64
	nviol       int
	exhaustive  map[string]bool
	journal     *os.File
	notes       map[string]string
}

var (
	once sync.Once
	rec  *Recorder
)

func envInt(name string, def int64) int64 {
	v, err := strconv.ParseInt(os.Getenv(name), 10, 64)
	if err != nil {
		return def
	}
	return v
}

// Get returns the process-wide recorder, configured from the environment set by the driver.
func Get() *Recorder {
	once.Do(func() {
		rec = &Recorder{
			Prop:       os.Getenv("VERIF_PROP"),
			Tier:       os.Getenv("VERIF_TIER"),
			Shard:      int(envInt("VERIF_SHARD", 0)),
			NShards:    int(envInt("VERIF_NSHARDS", 1)),
			Seed:       envInt("VERIF_SEED", 1),
			out:        os.Getenv("VERIF_OUT"),
			classes:    map[string]int64{},
			nontrivial: map[string]struct{}{},
			counters:   map[string]int64{},
			knownHits:  map[string]int64{},
			exhaustive: map[string]bool{},
			notes:      map[string]string{},
		}
		if rec.Tier == "" {
			rec.Tier = "quick"
		}
		if rec.NShards < 1 {
			rec.NShards = 1
		}
		if p := os.Getenv("VERIF_KNOWN"); p != "" {
			if data, err := os.ReadFile(p); err == nil {
				for _, line := range strings.Split(string(data), "\n") {
					line = strings.TrimSpace(line)
					if line == "" {
						continue
					}
					var k knownFinding
					if json.Unmarshal([]byte(line), &k) != nil || k.Status != "known" {
						continue
					}
					re, err := regexp.Compile(k.Signature)
					if err != nil {
						continue
					}
					k.re = re
					rec.known = append(rec.known, k)
				}
			}
		}
		if rec.out != "" {
			_ = os.MkdirAll(rec.out, 0o755)
			name := fmt.Sprintf("journal-%d-%d.jsonl", rec.Shard, os.Getpid())
			rec.journal, _ = os.OpenFile(filepath.Join(rec.out, name), os.O_CREATE|os.O_WRONLY|os.O_TRUNC, 0o644)
		}
	})
	return rec
}

// Thorough reports whether the thorough tier was requested.
func (r *Recorder) Thorough() bool { return r.Tier == "thorough" }

// Mine reports whether work item i belongs to this shard (for enumerations split across shards).
func (r *Recorder) Mine(i int) bool { return i%r.NShards == r.Shard }

// Case records one executed case. class is the distinctness key; nontrivial says whether it counts.
func (r *Recorder) Case(class string, nontrivial bool, sample interface{}) {
	r.mu.Lock()
	defer r.mu.Unlock()
	r.evaluations++
	first := r.classes[class] == 0
	r.classes[class]++
	if nontrivial {
		r.nontrivial[class] = struct{}{}
	}
	if sample == nil {
		return
	}
	r.sampleSeen++
	// keep the first sample of up to 6 distinct classes, then a few more spread out
	if (first && len(r.samples) < 6) || (len(r.samples) < 10 && r.sampleSeen%997 == 0) {
		r.samples = append(r.samples, map[string]interface{}{"class": class, "nontrivial": nontrivial, "case": sample})
	}
}

func (r *Recorder) Count(name string, d int64) {
	r.mu.Lock()
	r.counters[name] += d
	r.mu.Unlock()
}

func (r *Recorder) Note(k, v string) {
	r.mu.Lock()
	r.notes[k] = v
	r.mu.Unlock()
}

func (r *Recorder) Exhaustive(space string, complete bool) {
	r.mu.Lock()
	r.exhaustive[space] = complete
	r.mu.Unlock()
}

// Journal appends the case about to be executed, so that a process death can be attributed.
func (r *Recorder) Journal(kind string, c interface{}) {
	if r.journal == nil {
		return
	}
	b, err := json.Marshal(Violation{Property: r.Prop, Kind: kind, Signature: "process-death", Case: c})
	if err != nil {
		return
	}
	r.mu.Lock()
	_, _ = r.journal.Write(append(b, '\n'))
	r.mu.Unlock()
}

// IsKnown reports whether sig matches a committed known finding (and counts the hit).
func (r *Recorder) IsKnown(sig string) bool {
	r.mu.Lock()
	defer r.mu.Unlock()
	for _, k := range r.known {
		if k.Property == r.Prop && k.re.MatchString(sig) {
			r.knownHits[k.Signature]++
			r.counters["known:"+sig]++
			return true
		}
	}
	return false
}

// Report handles an oracle failure: known findings are counted and tolerated (returns false);
// anything else is written as a replay file and fails the test.
func (r *Recorder) Report(t Fataler, kind, sig, detail string, c interface{}) bool {
	if r.IsKnown(sig) {
		r.mu.Lock()
		if _, ok := r.notes["known:"+sig]; !ok {
			d := detail
			if len(d) > 1500 {
				d = d[:1500]
			}
			r.notes["known:"+sig] = d
		}
		r.mu.Unlock()
		return false
	}
	r.mu.Lock()
	r.nviol++
	v := Violation{Property: r.Prop, Kind: kind, Signature: sig, Detail: detail, Case: c}
	if r.out != "" {
		b, _ := json.MarshalIndent(v, "", " ")
		// the same file is overwritten by every failing execution: rapid runs the shrunk case last
		_ = os.WriteFile(filepath.Join(r.out, fmt.Sprintf("violation-%d-%s.json", r.Shard, sanitize(kind))), b, 0o644)
	}
	r.mu.Unlock()
	r.Flush()
	if t != nil {
		t.Fatalf("VIOLATION %s [%s]: %s", r.Prop, sig, detail)
	}
	return true
}

func sanitize(s string) string {
	return strings.Map(func(c rune) rune {
		if c >= 'a' && c <= 'z' || c >= 'A' && c <= 'Z' || c >= '0' && c <= '9' || c == '-' || c == '_' {
			return c
		}
		return '_'
	}, s)
}

// Guard runs f and converts a panic into an error string (with a trimmed stack).
func Guard(f func()) (panicked bool, msg string) {
	defer func() {
		if x := recover(); x != nil {
			panicked = true
			st := string(debug.Stack())
			msg = fmt.Sprintf("%v\n%s", x, trimStack(st))
		}
	}()
	f()
	return false, ""
}

func trimStack(s string) string {
	lines := strings.Split(s, "\n")
	var keep []string
	for _, l := range lines {
		if strings.Contains(l, "verifharness/ev") || strings.Contains(l, "runtime/debug") {
			continue
		}
		if strings.Contains(l, "multi-party-sig") || strings.Contains(l, "/repo/") || strings.Contains(l, "fxamacker/cbor") || strings.Contains(l, "saferith") {
			keep = append(keep, strings.TrimSpace(l))
		}
		if len(keep) >= 24 {
			break
		}
	}
	return strings.Join(keep, "\n")
}

// PanicSite extracts the source file of the first library frame of a Guard message (for signatures);
// panics raised inside a dependency without any library frame above them are attributed to the dependency.
func PanicSite(msg string) string {
	dep := ""
	for _, l := range strings.Split(msg, "\n") {
		if i := strings.Index(l, "/repo/"); i >= 0 {
			s := l[i+len("/repo/"):]
			if j := strings.Index(s, " "); j >= 0 {
				s = s[:j]
			}
			if k := strings.LastIndex(s, ":"); k >= 0 {
				// keep the file only (line numbers move with unrelated edits)
				s = s[:k]
			}
			return s
		}
		if dep == "" && strings.HasPrefix(l, "/") && (strings.Contains(l, "fxamacker/cbor") || strings.Contains(l, "saferith")) {
			if strings.Contains(l, "fxamacker/cbor") {
				dep = "dep:cbor"
			} else {
				dep = "dep:saferith"
			}
		}
	}
	if dep != "" {
		return dep
	}
	return "unknown"
}

// Flush writes this shard's evidence.
func (r *Recorder) Flush() {
	if r.out == "" {
		return
	}
	r.mu.Lock()
	defer r.mu.Unlock()
	nt := make([]string, 0, len(r.nontrivial))
	for k := range r.nontrivial {
		nt = append(nt, k)
	}
	sort.Strings(nt)
	doc := map[string]interface{}{
		"property":    r.Prop,
		"shard":       r.Shard,
		"evaluations": r.evaluations,
		"classes":     r.classes,
		"nontrivial":  nt,
		"samples":     r.samples,
		"counters":    r.counters,
		"known_hits":  r.knownHits,
		"violations":  r.nviol,
		"exhaustive":  r.exhaustive,
		"notes":       r.notes,
	}
	b, _ := json.Marshal(doc)
	_ = os.WriteFile(filepath.Join(r.out, fmt.Sprintf("evidence-%d-%d.json", r.Shard, os.Getpid())), b, 0o644)
}

// ReplayFile returns the replay request, if any.
func ReplayFile() (v Violation, raw json.RawMessage, ok bool) {
	p := os.Getenv("VERIF_REPLAY")
	if p == "" {
		return v, nil, false
	}
	data, err := os.ReadFile(p)
	if err != nil {
		panic(err)
	}
	var tmp struct {
		Violation
		Case json.RawMessage `json:"case"`
	}
	if err := json.Unmarshal(data, &tmp); err != nil {
		panic(err)
	}
	v = tmp.Violation
	return v, tmp.Case, true
}
