package advrun

import (
	"math/big"
	"strings"

	"github.com/cronokirby/saferith"
	"github.com/taurusgroup/multi-party-sig/internal/round"
	"github.com/taurusgroup/multi-party-sig/pkg/math/curve"
	"github.com/taurusgroup/multi-party-sig/pkg/paillier"
	"github.com/taurusgroup/multi-party-sig/pkg/party"
	"github.com/taurusgroup/multi-party-sig/verifharness/adv"
	"github.com/taurusgroup/multi-party-sig/verifharness/conv"
	"github.com/taurusgroup/multi-party-sig/verifharness/ref"
	"reflect"
)

// Deviations are the state-level deviations of a presigner named by C04: the cheater follows the
// protocol (all its individual proofs are honest proofs of what it sends) except for one inconsistency.
var Deviations = []string{"gamma-for-delta", "k-for-shares", "x-for-chi", "delta-share", "chi-share-after-mta", "sigma-share", "sigma-neg"}

// CiphertextDeviations: ONE Paillier ciphertext of ONE direct message is replaced by a well-formed ciphertext of the
// plaintext plus one (homomorphically, under the recipient's or the sender's key). Unlike a wire-level alteration of
// the ciphertext bytes the result decrypts to an in-range value, so only the check that is really about the VALUE can
// notice it (keygen: the VSS check of the received share; MtA: the affine-operation proof).
// "ctneg" replaces the ciphertext by one of the NEGATED plaintext, q - x (a share -x passes any check that looks at the
// x-coordinate of x*G only).
var KeygenCiphertextDeviations = []string{"ct+1:Share:recipient", "ctneg:Share:recipient"}
var MtACiphertextDeviations = []string{"ct+1:DeltaD:recipient", "ct+1:DeltaF:sender", "ct+1:ChiD:recipient", "ct+1:ChiF:sender"}

// CiphertextDeviationsFor lists the ciphertext deviations that exist in a CMP protocol (presign carries its D
// ciphertexts in a broadcast map, which this deviation does not touch).
func CiphertextDeviationsFor(p string) []string {
	switch {
	case strings.HasSuffix(p, "keygen") || strings.HasSuffix(p, "refresh"):
		return KeygenCiphertextDeviations
	case strings.Contains(p, "presign-online"):
		return nil
	case strings.Contains(p, "presign"):
		return []string{"ct+1:DeltaF:sender", "ct+1:ChiF:sender"}
	}
	return MtACiphertextDeviations
}

func paillierKeys(r round.Session) map[party.ID]*paillier.PublicKey {
	for _, name := range []string{"PaillierPublic", "Paillier"} {
		if f, ok := adv.Field(r, name); ok {
			if m, ok := f.Interface().(map[party.ID]*paillier.PublicKey); ok {
				return m
			}
		}
	}
	return nil
}

func addInt(v reflect.Value, d int64) {
	old := v.Interface().(*saferith.Int)
	v.Set(reflect.ValueOf(new(saferith.Int).Add(old, new(saferith.Int).SetBig(big.NewInt(d), 8), -1)))
}

func addScalar(v reflect.Value, d int64) {
	old := v.Interface().(curve.Scalar)
	v.Set(reflect.ValueOf(curve.Secp256k1{}.NewScalar().Set(old).Add(conv.Scalar(big.NewInt(d)))))
}

func isRound(r interface{}, suffix string) bool {
	return strings.HasSuffix(adv.RoundName(r), "."+suffix)
}

// deviation builds the hooks; hits counts how often a hook really changed something.
func deviation(name string) (*adv.Hooks, *int) {
	hits := new(int)
	h := &adv.Hooks{}
	tweakInt := func(r round.Session, roundName, field string, d int64) {
		if isRound(r, roundName) {
			if f, ok := adv.Field(r, field); ok {
				addInt(f, d)
				*hits++
			}
		}
	}
	tweakScalar := func(r round.Session, roundName, field string, d int64) {
		if isRound(r, roundName) {
			if f, ok := adv.Field(r, field); ok {
				addScalar(f, d)
				*hits++
			}
		}
	}
	if strings.HasPrefix(name, "ct+1:") || strings.HasPrefix(name, "ctneg:") {
		parts := strings.Split(name, ":")
		field, whose := parts[1], parts[2]
		h.Content = func(r round.Session, msg *round.Message) {
			if *hits > 0 || msg.Broadcast || msg.To == "" {
				return
			}
			f, ok := adv.Field(msg.Content, field)
			if !ok {
				return
			}
			ct, ok := f.Interface().(*paillier.Ciphertext)
			keys := paillierKeys(r)
			if !ok || ct == nil || keys == nil {
				return
			}
			owner := msg.To
			if whose == "sender" {
				owner = r.SelfID()
			}
			pk := keys[owner]
			if pk == nil {
				return
			}
			if parts[0] == "ctneg" {
				// q - x: the receiver insists on a plaintext in [0, q)
				qEnc, _ := pk.Enc(new(saferith.Int).SetBig(ref.N, 256))
				f.Set(reflect.ValueOf(ct.Clone().Mul(pk, new(saferith.Int).SetBig(big.NewInt(-1), 8)).Add(pk, qEnc)))
			} else {
				one, _ := pk.Enc(new(saferith.Int).SetUint64(1))
				f.Set(reflect.ValueOf(ct.Clone().Add(pk, one)))
			}
			*hits++
		}
		return h, hits
	}
	switch name {
	case "gamma-for-delta":
		// the delta share is computed with gamma-1; everything else (Gamma point, proofs) uses the real gamma
		h.Before = func(r round.Session) { tweakInt(r, "presign3", "GammaShare", -1) }
		h.After = func(r round.Session) { tweakInt(r, "presign4", "GammaShare", +1) }
	case "k-for-shares":
		// delta and chi shares are computed with k+1; K (the ciphertext) and later rounds use the real k
		h.Before = func(r round.Session) { tweakScalar(r, "presign3", "KShare", +1) }
		h.After = func(r round.Session) { tweakScalar(r, "presign4", "KShare", -1) }
	case "x-for-chi":
		// the chi share is computed with x-1
		h.Before = func(r round.Session) { tweakScalar(r, "presign3", "SecretECDSA", -1) }
		h.After = func(r round.Session) { tweakScalar(r, "presign4", "SecretECDSA", +1) }
	case "delta-share":
		// announces (and keeps) delta-1
		h.After = func(r round.Session) {
			if isRound(r, "presign4") {
				if f, ok := adv.Field(r, "DeltaShares"); ok {
					self := r.SelfID()
					m := f.Interface().(map[party.ID]curve.Scalar)
					m[self] = curve.Secp256k1{}.NewScalar().Set(m[self]).Add(conv.Scalar(big.NewInt(-1)))
					*hits++
				}
			}
		}
		h.Content = func(r round.Session, msg *round.Message) {
			if isRound(r, "presign4") && msg.Broadcast {
				if f, ok := adv.Field(msg.Content, "DeltaShare"); ok {
					addScalar(f, -1)
				}
			}
		}
	case "chi-share-after-mta":
		// the chi share is changed after the MtA and its ElGamal encryption: the later proof about S cannot be honest
		h.After = func(r round.Session) { tweakScalar(r, "presign4", "ChiShare", +1) }
	case "sigma-share", "sigma-neg":
		// the final signature share is off by one / is exactly the negated share (sigma*R and -sigma*R share their
		// x-coordinate)
		h.Content = func(r round.Session, msg *round.Message) {
			if isRound(r, "sign2") && msg.Broadcast {
				if f, ok := adv.Field(msg.Content, "Sigma"); ok {
					if name == "sigma-neg" {
						old := f.Interface().(curve.Scalar)
						f.Set(reflect.ValueOf(curve.Secp256k1{}.NewScalar().Set(old).Negate()))
					} else {
						addScalar(f, +1)
					}
					*hits++
				}
			}
		}
	}
	return h, hits
}

// DeviationHooks returns the hooks of a named deviation (for engines that wrap the start function themselves).
func DeviationHooks(name string) *adv.Hooks {
	h, _ := deviation(name)
	return h
}
