package advrun

import (
	"math/big"
	"strings"

	"github.com/cronokirby/saferith"
	"github.com/taurusgroup/multi-party-sig/internal/round"
	"github.com/taurusgroup/multi-party-sig/pkg/math/curve"
	"github.com/taurusgroup/multi-party-sig/pkg/party"
	"github.com/taurusgroup/multi-party-sig/verifharness/adv"
	"github.com/taurusgroup/multi-party-sig/verifharness/conv"
	"reflect"
)

// Deviations are the state-level deviations of a presigner named by C04: the cheater follows the
// protocol (all its individual proofs are honest proofs of what it sends) except for one inconsistency.
var Deviations = []string{"gamma-for-delta", "k-for-shares", "x-for-chi", "delta-share", "chi-share-after-mta", "sigma-share"}

func addInt(v reflect.Value, d int64) {
	old := v.Interface().(*saferith.Int)
	v.Set(reflect.ValueOf(new(saferith.Int).Add(old, new(saferith.Int).SetBig(big.NewInt(d), 8), -1)))
}

func addScalar(v reflect.Value, d int64) {
	old := v.Interface().(curve.Scalar)
	v.Set(reflect.ValueOf(curve.Secp256k1{}.NewScalar().Set(old).Add(conv.Scalar(big.NewInt(d)))))
}

func isRound(r interface{}, suffix string) bool {
	return strings.HasSuffix(adv.RoundName(r), "."+suffix)
}

// deviation builds the hooks; hits counts how often a hook really changed something.
func deviation(name string) (*adv.Hooks, *int) {
	hits := new(int)
	h := &adv.Hooks{}
	tweakInt := func(r round.Session, roundName, field string, d int64) {
		if isRound(r, roundName) {
			if f, ok := adv.Field(r, field); ok {
				addInt(f, d)
				*hits++
			}
		}
	}
	tweakScalar := func(r round.Session, roundName, field string, d int64) {
		if isRound(r, roundName) {
			if f, ok := adv.Field(r, field); ok {
				addScalar(f, d)
				*hits++
			}
		}
	}
	switch name {
	case "gamma-for-delta":
		// the delta share is computed with gamma-1; everything else (Gamma point, proofs) uses the real gamma
		h.Before = func(r round.Session) { tweakInt(r, "presign3", "GammaShare", -1) }
		h.After = func(r round.Session) { tweakInt(r, "presign4", "GammaShare", +1) }
	case "k-for-shares":
		// delta and chi shares are computed with k+1; K (the ciphertext) and later rounds use the real k
		h.Before = func(r round.Session) { tweakScalar(r, "presign3", "KShare", +1) }
		h.After = func(r round.Session) { tweakScalar(r, "presign4", "KShare", -1) }
	case "x-for-chi":
		// the chi share is computed with x-1
		h.Before = func(r round.Session) { tweakScalar(r, "presign3", "SecretECDSA", -1) }
		h.After = func(r round.Session) { tweakScalar(r, "presign4", "SecretECDSA", +1) }
	case "delta-share":
		// announces (and keeps) delta-1
		h.After = func(r round.Session) {
			if isRound(r, "presign4") {
				if f, ok := adv.Field(r, "DeltaShares"); ok {
					self := r.SelfID()
					m := f.Interface().(map[party.ID]curve.Scalar)
					m[self] = curve.Secp256k1{}.NewScalar().Set(m[self]).Add(conv.Scalar(big.NewInt(-1)))
					*hits++
				}
			}
		}
		h.Content = func(r round.Session, msg *round.Message) {
			if isRound(r, "presign4") && msg.Broadcast {
				if f, ok := adv.Field(msg.Content, "DeltaShare"); ok {
					addScalar(f, -1)
				}
			}
		}
	case "chi-share-after-mta":
		// the chi share is changed after the MtA and its ElGamal encryption: the later proof about S cannot be honest
		h.After = func(r round.Session) { tweakScalar(r, "presign4", "ChiShare", +1) }
	case "sigma-share":
		// the final signature share is off by one
		h.Content = func(r round.Session, msg *round.Message) {
			if isRound(r, "sign2") && msg.Broadcast {
				if f, ok := adv.Field(msg.Content, "Sigma"); ok {
					addScalar(f, +1)
					*hits++
				}
			}
		}
	}
	return h, hits
}

// DeviationHooks returns the hooks of a named deviation (for engines that wrap the start function themselves).
func DeviationHooks(name string) *adv.Hooks {
	h, _ := deviation(name)
	return h
}
