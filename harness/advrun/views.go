package advrun

import (
	"bytes"
	"fmt"

	"github.com/taurusgroup/multi-party-sig/pkg/math/curve"
	"github.com/taurusgroup/multi-party-sig/protocols/cmp"
	"github.com/taurusgroup/multi-party-sig/protocols/doerner"
	"github.com/taurusgroup/multi-party-sig/protocols/frost"
	"github.com/taurusgroup/multi-party-sig/verifharness/conv"
	"github.com/taurusgroup/multi-party-sig/verifharness/proto"
	"github.com/taurusgroup/multi-party-sig/verifharness/ref"
)

type pubView struct {
	key           []byte
	table         map[string][]byte
	own           []byte
	ownFromSecret []byte
}

func pt(p curve.Point) []byte {
	b, _ := p.MarshalBinary()
	return b
}

// publicView extracts group key, public table, own entry and own-secret*G (computed in ref) from a result.
func publicView(v interface{}) (pv pubView, err error) {
	defer func() {
		if x := recover(); x != nil {
			err = fmt.Errorf("result cannot be inspected: %v", x)
		}
	}()
	pv.table = map[string][]byte{}
	switch c := v.(type) {
	case *cmp.Config:
		pv.key = pt(c.PublicPoint())
		for id, p := range c.Public {
			var b bytes.Buffer
			b.Write(pt(p.ECDSA))
			b.Write(pt(p.ElGamal))
			b.Write(p.Paillier.N().Bytes())
			b.Write(p.Pedersen.N().Bytes())
			b.Write(p.Pedersen.S().Bytes())
			b.Write(p.Pedersen.T().Bytes())
			pv.table[string(id)] = b.Bytes()
		}
		pv.own = pt(c.Public[c.ID].ECDSA)
		pv.ownFromSecret = ref.BaseMul(conv.Big(c.ECDSA)).Compress()
	case *frost.Config:
		pv.key = pt(c.PublicKey)
		for id, p := range c.VerificationShares.Points {
			pv.table[string(id)] = pt(p)
		}
		pv.own = pv.table[string(c.ID)]
		pv.ownFromSecret = ref.BaseMul(conv.Big(c.PrivateShare)).Compress()
	case *frost.TaprootConfig:
		pv.key = append([]byte{}, c.PublicKey...)
		for id, p := range c.VerificationShares {
			pv.table[string(id)] = pt(p)
		}
		pv.own = pv.table[string(c.ID)]
		pv.ownFromSecret = ref.BaseMul(conv.Big(c.PrivateShare)).Compress()
	case *doerner.ConfigReceiver:
		pv.key = pt(c.Public)
	case *doerner.ConfigSender:
		pv.key = pt(c.Public)
	default:
		return pv, fmt.Errorf("unexpected result type %T", v)
	}
	if len(pv.key) == 0 {
		return pv, fmt.Errorf("empty group key")
	}
	return pv, nil
}

func groupKeyBytes(m *proto.Material) []byte {
	if m.Scheme == proto.SchemeFrostTap {
		return m.Pub.XBytes()
	}
	return m.Pub.Compress()
}
