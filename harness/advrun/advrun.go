// Package advrun runs one session with one deviating participant and collects what the oracles of
// C03 (no wrong result), C04 (sound blame, attribution) and C09 need.
package advrun

import (
	"bytes"
	"errors"
	"fmt"
	"sort"
	"strings"
	"sync"

	"github.com/taurusgroup/multi-party-sig/pkg/ecdsa"
	"github.com/taurusgroup/multi-party-sig/pkg/party"
	"github.com/taurusgroup/multi-party-sig/pkg/protocol"
	"github.com/taurusgroup/multi-party-sig/verifharness/adv"
	"github.com/taurusgroup/multi-party-sig/verifharness/conv"
	"github.com/taurusgroup/multi-party-sig/verifharness/fix"
	"github.com/taurusgroup/multi-party-sig/verifharness/proto"
	"github.com/taurusgroup/multi-party-sig/verifharness/ref"
	"github.com/taurusgroup/multi-party-sig/verifharness/sim"
	"github.com/taurusgroup/multi-party-sig/verifharness/tape"
)

var Message = []byte("advrun: the agreed message hash!")

// Setup identifies a session configuration (cached material, cached honest run).
type Setup struct {
	Proto string
	N, T  int
	Seed  uint64 // selects key material and party randomness
	// MsgLen: length of the message (hash) to be signed; 0 = the standard 32-byte message
	MsgLen int `json:",omitempty"`
}

// Msg is the message the signing protocols of this setup sign.
func (s Setup) Msg() []byte {
	if s.MsgLen == 0 {
		return Message
	}
	out := make([]byte, s.MsgLen)
	for i := range out {
		out[i] = Message[i%len(Message)] ^ byte(i/len(Message)*37+s.MsgLen)
	}
	return out
}

type built struct {
	sess *proto.Session
	mat  *proto.Material
}

var (
	mu       sync.Mutex
	matCache = map[string]*proto.Material{}
	preCache = map[string]map[party.ID]*ecdsa.PreSignature{}
	honest   = map[string]*sim.Net{}
)

func scheme(p string) string {
	switch {
	case strings.HasPrefix(p, "cmp-"):
		return proto.SchemeCMP
	case strings.HasSuffix(p, "-taproot"):
		return proto.SchemeFrostTap
	case strings.HasPrefix(p, "frost-"):
		return proto.SchemeFrost
	}
	return proto.SchemeDoerner
}

func material(s Setup) (*proto.Material, error) {
	sch := scheme(s.Proto)
	key := fmt.Sprintf("%s/%d/%d/%d", sch, s.N, s.T, s.Seed)
	mu.Lock()
	defer mu.Unlock()
	if m, ok := matCache[key]; ok {
		return m.Clone(), nil
	}
	ids := fix.IDs("letters", s.N, 0)
	var m *proto.Material
	var err error
	if sch == proto.SchemeDoerner {
		m, err = proto.Keygen(sch, 1000+s.Seed, ids[:2], 1, sim.FIFO)
	} else {
		m, err = proto.Deal(sch, 1000+s.Seed, ids, s.T)
	}
	if err != nil {
		return nil, err
	}
	matCache[key] = m
	return m.Clone(), nil
}

// Build creates the session of the setup (all parties sign / take part).
func Build(s Setup) (*proto.Session, *proto.Material, error) {
	ids := fix.IDs("letters", s.N, 0)
	sid := []byte(fmt.Sprintf("advrun-%d", s.Seed))
	switch s.Proto {
	case proto.XOR:
		return &proto.Session{Proto: s.Proto, SessionID: sid, IDs: fix.SortedIDs(ids)}, nil, nil
	case proto.CMPKeygen, proto.FrostKeygen, proto.FrostKeygenTap:
		return &proto.Session{Proto: s.Proto, SessionID: sid, IDs: fix.SortedIDs(ids), T: s.T}, nil, nil
	case proto.DoernerKeygen:
		return &proto.Session{Proto: s.Proto, SessionID: sid, IDs: ids[:2], T: 1}, nil, nil
	}
	m, err := material(s)
	if err != nil {
		return nil, nil, err
	}
	switch s.Proto {
	case proto.CMPRefresh, proto.FrostRefresh, proto.FrostRefreshTap, proto.DoernerRefresh:
		return m.RefreshSession(sid), m, nil
	case proto.CMPPresign:
		return m.SignSession(s.Proto, m.IDs, nil, sid), m, nil
	case proto.CMPPresignOnline:
		key := fmt.Sprintf("%d/%d/%d", s.N, s.T, s.Seed)
		mu.Lock()
		pre, ok := preCache[key]
		mu.Unlock()
		if !ok {
			res, _, err := proto.RunHonest(m.SignSession(proto.CMPPresign, m.IDs, nil, sid), 2000+s.Seed, sim.FIFO)
			if err != nil {
				return nil, nil, err
			}
			if pre, err = proto.PreSignatures(res); err != nil {
				return nil, nil, err
			}
			mu.Lock()
			preCache[key] = pre
			mu.Unlock()
		}
		sess := m.SignSession(s.Proto, m.IDs, s.Msg(), sid)
		sess.Pre = map[party.ID]*ecdsa.PreSignature{}
		for k, v := range pre {
			c := *v
			sess.Pre[k] = &c
		}
		return sess, m, nil
	default:
		return m.SignSession(s.Proto, m.IDs, s.Msg(), sid), m, nil
	}
}

// Honest returns a finished all-honest in-order run of the setup (cached): the source of message
// templates, field paths and "values copied from another message".
func Honest(s Setup) (*sim.Net, error) {
	key := fmt.Sprintf("%v", s)
	mu.Lock()
	n, ok := honest[key]
	mu.Unlock()
	if ok {
		return n, nil
	}
	sess, _, err := Build(s)
	if err != nil {
		return nil, err
	}
	mux := tape.Install(s.Seed)
	defer mux.Uninstall()
	if s.Proto == proto.CMPKeygen || s.Proto == proto.CMPRefresh {
		defer fix.InstallPrimeSource(int(s.Seed % 31))()
	}
	n, err = sess.Run(mux, sim.FIFO)
	if err != nil {
		return nil, err
	}
	for _, p := range n.Parties {
		if !p.Outcome().Finished {
			return nil, fmt.Errorf("honest baseline of %v does not complete at %q: %v", s, p.Name, p.Outcome().Err)
		}
	}
	mu.Lock()
	honest[key] = n
	mu.Unlock()
	return n, nil
}

// Case is one adversarial run.
type Case struct {
	Setup     Setup
	Cheater   int         // index into the session's party order
	Tamper    *adv.Tamper // wire-level deviation (Cheater name is filled in)
	Deviation string      // state-level deviation of a presigner (see Deviations)
	DropAbort bool        // abort notices are lost on the network
	Sched     []int
}

// Report is what the oracles look at.
type Report struct {
	Case     Case
	Cheater  party.ID
	Honest   []party.ID
	Outcome  map[party.ID]sim.Outcome
	Relayed  map[party.ID]bool // the party ended because it was handed an abort notice
	Applied  *adv.Applied
	DevHits  int
	Material *proto.Material
	Net      *sim.Net
	Session  *proto.Session
}

// Run executes the case. A *sim.PanicError means an honest party (or the harness-driven cheater) crashed.
func Run(c Case) (*Report, error) {
	sess, mat, err := Build(c.Setup)
	if err != nil {
		return nil, err
	}
	base, err := Honest(c.Setup)
	if err != nil {
		return nil, err
	}
	order := sess.Order()
	cheater := order[c.Cheater%len(order)]
	rep := &Report{Case: c, Cheater: cheater, Outcome: map[party.ID]sim.Outcome{}, Relayed: map[party.ID]bool{}, Material: mat, Session: sess}
	for _, id := range order {
		if id != cheater {
			rep.Honest = append(rep.Honest, id)
		}
	}
	mux := tape.Install(c.Setup.Seed)
	defer mux.Uninstall()
	if c.Setup.Proto == proto.CMPKeygen || c.Setup.Proto == proto.CMPRefresh {
		defer fix.InstallPrimeSource(int(c.Setup.Seed % 31))()
	}
	n := sim.New(mux)
	n.DropAbortNotices = c.DropAbort
	rep.Net = n
	if c.Deviation != "" {
		hooks, hits := deviation(c.Deviation)
		sess.Wrap = func(id party.ID, f protocol.StartFunc) protocol.StartFunc {
			if id == cheater {
				return adv.WrapStart(f, hooks)
			}
			return f
		}
		defer func() { rep.DevHits = *hits }()
	}
	if c.Tamper != nil {
		t := *c.Tamper
		t.Cheater = string(cheater)
		rep.Applied = t.Install(n, base)
	}
	if err := sess.AddAll(n); err != nil {
		return rep, err
	}
	if rep.Applied != nil {
		rep.Applied.Start()
	}
	if err := n.Run(sim.FromList(c.Sched), 200000); err != nil {
		return rep, err
	}
	for _, p := range n.Parties {
		rep.Collect(p, p.ID)
	}
	return rep, nil
}

// Collect records the outcome of one party and whether it ended because it was handed an abort notice.
func (rep *Report) Collect(p *sim.Party, id party.ID) {
	o := p.Outcome()
	rep.Outcome[id] = o
	// relay: the delivery that ended the session was an abort notice, and its origin is what the party names
	for _, e := range p.Log {
		if e.Accepted && !e.ClosedBefore && e.ClosedAfter {
			if e.M.RoundNumber == 0 && o.Aborted && len(o.Culprits) == 1 && o.Culprits[0] == e.M.From {
				rep.Relayed[id] = true
			}
			break
		}
	}
}

// WrongResult is the C03 oracle: an honest party that finished must hold a correct result.
func (r *Report) WrongResult() (sig, detail string) {
	var fin []party.ID
	for _, id := range r.Honest {
		if r.Outcome[id].Finished {
			fin = append(fin, id)
		}
	}
	if len(fin) == 0 {
		return "", ""
	}
	p := r.Case.Setup.Proto
	switch p {
	case proto.CMPSign, proto.CMPPresignOnline, proto.CMPPresignFull, proto.FrostSign, proto.FrostSignTap, proto.DoernerSign:
		for _, id := range fin {
			if err := proto.CheckSignature(p, r.Outcome[id].Value, r.Material.Pub, r.Case.Setup.Msg()); err != nil {
				return "wrong-signature:" + p, fmt.Sprintf("honest party %q finished with an invalid signature: %v", id, err)
			}
		}
	case proto.CMPPresign:
		var first *ecdsa.PreSignature
		for _, id := range fin {
			ps, ok := r.Outcome[id].Value.(*ecdsa.PreSignature)
			if !ok || ps.Validate() != nil {
				return "wrong-presignature", fmt.Sprintf("honest party %q finished with an invalid presignature", id)
			}
			if first == nil {
				first = ps
			} else if !ps.R.Equal(first.R) || !bytes.Equal(ps.ID, first.ID) {
				return "presignatures-differ", fmt.Sprintf("honest parties %q and %q finished with different presignatures", fin[0], id)
			}
		}
	default:
		// key generation / refresh: the finishers' material must be mutually consistent
		res := map[party.ID]interface{}{}
		for _, id := range fin {
			res[id] = r.Outcome[id].Value
		}
		return keyMaterialIssue(r, fin, res)
	}
	return "", ""
}

func keyMaterialIssue(r *Report, fin []party.ID, res map[party.ID]interface{}) (string, string) {
	type view struct {
		key    []byte
		table  map[string][]byte
		secret ref.Pt
		own    []byte
	}
	views := map[party.ID]view{}
	for _, id := range fin {
		b, err := proto.ResultBytes(res[id])
		if err != nil || len(b) == 0 {
			return "unencodable-result", fmt.Sprintf("party %q: %v", id, err)
		}
		v, err := publicView(res[id])
		if err != nil {
			return "wrong-key-material", fmt.Sprintf("honest party %q finished with unusable key material: %v", id, err)
		}
		views[id] = view{key: v.key, table: v.table, own: v.own}
		if !bytes.Equal(v.ownFromSecret, v.own) {
			return "own-share-mismatch", fmt.Sprintf("honest party %q finished with a secret share that does not match its public entry", id)
		}
		if r.Material != nil && !bytes.Equal(v.key, groupKeyBytes(r.Material)) {
			return "refresh-changed-key", fmt.Sprintf("honest party %q finished a refresh with a different group key", id)
		}
	}
	first := views[fin[0]]
	for _, id := range fin[1:] {
		v := views[id]
		if !bytes.Equal(v.key, first.key) {
			return "group-key-differs", fmt.Sprintf("honest parties %q and %q finished with different group keys", fin[0], id)
		}
		if len(v.table) != len(first.table) {
			return "table-differs", fmt.Sprintf("honest parties %q and %q finished with different public tables", fin[0], id)
		}
		for k, row := range first.table {
			if !bytes.Equal(v.table[k], row) {
				return "table-differs", fmt.Sprintf("honest parties %q and %q disagree on the public data of %q", fin[0], id, k)
			}
		}
	}
	return "", ""
}

// UnsoundBlame is oracle O1 of C04: a self-detected error must not name an honest party.
func (r *Report) UnsoundBlame() (sig, detail string) {
	for _, id := range r.Honest {
		o := r.Outcome[id]
		if !o.Aborted || len(o.Culprits) == 0 || r.Relayed[id] {
			continue
		}
		for _, c := range o.Culprits {
			if c != r.Cheater {
				return "honest-party-blamed:" + r.Case.Setup.Proto, fmt.Sprintf("honest party %q names %q as culprit (the deviating party is %q): %v", id, c, r.Cheater, o.Err)
			}
		}
	}
	return "", ""
}

// BlamesExactly reports whether id ended with an error naming exactly the cheater.
func (r *Report) BlamesExactly(id party.ID) bool {
	o := r.Outcome[id]
	return o.Aborted && len(o.Culprits) == 1 && o.Culprits[0] == r.Cheater
}

// Summary classifies the outcome of the honest parties.
func (r *Report) Summary() string {
	var parts []string
	for _, id := range r.Honest {
		o := r.Outcome[id]
		switch {
		case o.Finished:
			parts = append(parts, "done")
		case r.Relayed[id]:
			parts = append(parts, "relayed")
		case o.Aborted && len(o.Culprits) == 1 && o.Culprits[0] == r.Cheater:
			parts = append(parts, "blames-cheater")
		case o.Aborted && len(o.Culprits) == 0:
			parts = append(parts, "aborts-nobody")
		case o.Aborted:
			parts = append(parts, "blames-other")
		default:
			parts = append(parts, "waiting")
		}
	}
	sort.Strings(parts)
	return strings.Join(parts, ",")
}

var _ = errors.New
var _ = conv.Hex
