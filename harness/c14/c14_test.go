package c14

import (
	"bytes"
	"errors"
	"fmt"
	"testing"

	"github.com/taurusgroup/multi-party-sig/pkg/party"
	"github.com/taurusgroup/multi-party-sig/verifharness/conv"
	"github.com/taurusgroup/multi-party-sig/verifharness/ev"
	"github.com/taurusgroup/multi-party-sig/verifharness/fix"
	"github.com/taurusgroup/multi-party-sig/verifharness/pbt"
	"github.com/taurusgroup/multi-party-sig/verifharness/proto"
	"github.com/taurusgroup/multi-party-sig/verifharness/ref"
	"github.com/taurusgroup/multi-party-sig/verifharness/sim"
	"pgregory.net/rapid"
)

func TestMain(m *testing.M)   { pbt.Main(m) }
func TestReplay(t *testing.T) { pbt.Replay(t) }
func TestCorpus(t *testing.T) { pbt.Corpus(t) }

// Step is one operation of a derivation history.
type Step struct {
	Op    string // derive, refresh
	Index uint32
}

type Case struct {
	Scheme string
	N, T   int
	Family string
	Source string // keygen (real protocol run) or dealer (CMP only: dealt material with a random chain key)
	Steps  []Step
	Sign   bool
	Seed   uint64
}

// chainKeys returns every party's chain key.
func chainKeys(m *proto.Material) map[party.ID][]byte {
	out := map[party.ID][]byte{}
	switch m.Scheme {
	case proto.SchemeCMP:
		for id, c := range m.CMP {
			out[id] = c.ChainKey
		}
	case proto.SchemeFrost:
		for id, c := range m.Frost {
			out[id] = c.ChainKey
		}
	case proto.SchemeFrostTap:
		for id, c := range m.FrostTap {
			out[id] = c.ChainKey
		}
	case proto.SchemeDoerner:
		out[m.IDs[0]] = m.DoernerR.ChainKey
		out[m.IDs[1]] = m.DoernerS.ChainKey
	}
	return out
}

// publicKeys returns the group key every party reports, in the oracle's representation.
func publicKeys(m *proto.Material) (map[party.ID]ref.Pt, error) {
	out := map[party.ID]ref.Pt{}
	switch m.Scheme {
	case proto.SchemeCMP:
		for id, c := range m.CMP {
			out[id] = conv.Ref(c.PublicPoint())
		}
	case proto.SchemeFrost:
		for id, c := range m.Frost {
			out[id] = conv.Ref(c.PublicKey)
		}
	case proto.SchemeFrostTap:
		for id, c := range m.FrostTap {
			if len(c.PublicKey) != 32 {
				return nil, fmt.Errorf("party %q: taproot key has %d bytes", id, len(c.PublicKey))
			}
			p, ok := ref.LiftX(conv.BigHex(conv.Hex(c.PublicKey)))
			if !ok {
				return nil, fmt.Errorf("party %q: taproot key is not on the curve", id)
			}
			out[id] = p
		}
	case proto.SchemeDoerner:
		out[m.IDs[0]] = conv.Ref(m.DoernerR.Public)
		out[m.IDs[1]] = conv.Ref(m.DoernerS.Public)
	}
	return out, nil
}

func agreeChain(m *proto.Material, stage string) ([]byte, *pbt.Fail) {
	var first []byte
	for _, id := range m.IDs {
		ck := chainKeys(m)[id]
		if len(ck) != 32 {
			return nil, pbt.Failf(fmt.Sprintf("chain-key-length:%s:%s", m.Scheme, stage), fmt.Sprintf("party %q holds a %d-byte chain key after %s", id, len(ck), stage))
		}
		if first == nil {
			first = ck
		} else if !bytes.Equal(first, ck) {
			return nil, pbt.Failf(fmt.Sprintf("chain-key-differs:%s:%s", m.Scheme, stage), fmt.Sprintf("party %q holds a different chain key after %s", id, stage))
		}
	}
	return first, nil
}

func run(c Case) *pbt.Fail {
	ids := fix.IDs(c.Family, c.N, 0)
	var m *proto.Material
	var err error
	if c.Source == "dealer" {
		m, err = proto.Deal(c.Scheme, c.Seed, ids, c.T)
	} else {
		if c.Scheme == proto.SchemeDoerner {
			ids = ids[:2]
		}
		m, err = proto.Keygen(c.Scheme, c.Seed, ids, c.T, sim.FIFO)
	}
	if err != nil {
		return setupFail("keygen", err)
	}
	chain, f := agreeChain(m, "keygen")
	if f != nil {
		return f
	}
	var zero [32]byte
	if bytes.Equal(chain, zero[:]) {
		return pbt.Failf("chain-key-zero:"+c.Scheme, "chain key is all zero after key generation")
	}
	for si, st := range c.Steps {
		switch st.Op {
		case "refresh":
			m, err = m.Refresh(c.Seed+uint64(si)+1, sim.FIFO)
			if err != nil {
				return setupFail("refresh", err)
			}
			if chain, f = agreeChain(m, "refresh"); f != nil {
				return f
			}
		case "derive", "derive-sibling":
			// "derive-sibling": the child is checked like any other but the path stays at the parent, so that the next
			// step derives from the SAME parent configuration objects again
			parent := m.Pub
			wantChild, wantChain, ok := ref.CKDpub(parent, chain, st.Index)
			if !ok {
				continue // IL >= n or point at infinity: BIP-32 says skip this index (probability ~2^-127)
			}
			if m.Scheme == proto.SchemeFrostTap && !wantChild.EvenY() {
				wantChild = wantChild.Neg()
			}
			d, err := m.Derive(st.Index)
			if err != nil {
				return pbt.Failf("derive-error:"+c.Scheme, fmt.Sprintf("step %d index %d: %v", si, st.Index, err))
			}
			pks, err := publicKeys(d)
			if err != nil {
				return pbt.Failf("derive-public-key-form:"+c.Scheme, err.Error())
			}
			for _, id := range d.IDs {
				if !pks[id].Equal(wantChild) {
					return pbt.Failf("derive-public-key:"+c.Scheme, fmt.Sprintf("party %q: child public key at index %d differs from BIP-32 CKDpub (step %d)", id, st.Index, si))
				}
				if ck := chainKeys(d)[id]; !bytes.Equal(ck, wantChain) {
					return pbt.Failf("derive-chain-code:"+c.Scheme, fmt.Sprintf("party %q: child chain code at index %d is %x, BIP-32 gives %x (step %d)", id, st.Index, ck, wantChain, si))
				}
			}
			d.Pub = wantChild
			if is := proto.Consistent(d); is != nil {
				return pbt.Failf("derived-sharing:"+is.Sig, fmt.Sprintf("after derivation at index %d: %s", st.Index, is.Detail))
			}
			if st.Op == "derive" {
				m, chain = d, wantChain
			}
		}
	}
	if c.Sign {
		msg := []byte("c14: message signed with derived material")
		signers := m.IDs[:m.T+1]
		if m.Scheme == proto.SchemeDoerner {
			signers = m.IDs
		}
		p := proto.SignProto(m.Scheme)
		s := m.SignSession(p, signers, msg, []byte("c14-sign"))
		res, _, err := proto.RunHonest(s, c.Seed+99, sim.FIFO)
		if err != nil {
			return setupFail("sign-with-derived", err)
		}
		for _, id := range s.Order() {
			if err := proto.CheckSignature(p, res[id], m.Pub, msg); err != nil {
				return pbt.Failf("derived-signature-invalid:"+c.Scheme, fmt.Sprintf("party %q: %v", id, err))
			}
		}
	}
	return nil
}

func setupFail(stage string, err error) *pbt.Fail {
	var pe *sim.PanicError
	if errors.As(err, &pe) {
		return pbt.Failf("panic:"+stage, pe.Error()+"\n"+pe.Stack)
	}
	return pbt.Failf("error:"+stage, err.Error())
}

var prop = pbt.Define(pbt.Prop[Case]{Kind: "derivation-history", Run: run, Class: func(c Case) (string, bool) {
	shape, depth, boundary := "", 0, false
	for _, s := range c.Steps {
		if s.Op == "derive" {
			shape += "D"
			depth++
			if s.Index == 0 || s.Index == 1 || s.Index == 1<<31-1 {
				boundary = true
			}
		} else if s.Op == "derive-sibling" {
			shape += "S"
			if s.Index == 0 || s.Index == 1 || s.Index == 1<<31-1 {
				boundary = true
			}
		} else {
			shape += "R"
		}
	}
	return fmt.Sprintf("%s|%s|n=%d|t=%d|%s|sign=%v|boundary=%v", c.Scheme, c.Source, c.N, c.T, shape, c.Sign, boundary), depth >= 2 || boundary || c.Scheme != proto.SchemeCMP
}})

func gen(t *rapid.T, scheme string, maxN int, allowRefresh bool) Case {
	c := Case{Scheme: scheme, Source: "keygen"}
	if scheme == proto.SchemeDoerner {
		c.N, c.T = 2, 1
	} else {
		c.N = rapid.IntRange(1, maxN).Draw(t, "n")
		c.T = rapid.IntRange(0, c.N-1).Draw(t, "t")
	}
	c.Family = rapid.SampledFrom(fix.UTF8Families).Draw(t, "family")
	n := rapid.IntRange(1, 4).Draw(t, "steps")
	for i := 0; i < n; i++ {
		op := rapid.SampledFrom([]string{"derive", "derive", "derive-sibling"}).Draw(t, "op")
		if allowRefresh && rapid.IntRange(0, 4).Draw(t, "refresh") == 0 {
			op = "refresh"
		}
		idx := rapid.SampledFrom([]uint32{0, 1, 1<<31 - 1, 2, 1 << 30}).Draw(t, "index")
		if rapid.Bool().Draw(t, "randIndex") {
			idx = rapid.Uint32Range(0, 1<<31-1).Draw(t, "indexRand")
		}
		c.Steps = append(c.Steps, Step{Op: op, Index: idx})
	}
	c.Sign = rapid.IntRange(0, 3).Draw(t, "sign") == 0
	c.Seed = rapid.Uint64Range(1, 1<<40).Draw(t, "seed")
	return c
}

func TestFrostDoerner(t *testing.T) {
	rapid.Check(t, func(rt *rapid.T) {
		scheme := rapid.SampledFrom([]string{proto.SchemeFrost, proto.SchemeFrostTap, proto.SchemeDoerner}).Draw(rt, "scheme")
		prop.One(rt, gen(rt, scheme, 5, true))
	})
}

// CMP: derivation on dealt material (cheap, many) and a few real keygen/refresh/sign histories.
func TestCMPDealt(t *testing.T) {
	rapid.Check(t, func(rt *rapid.T) {
		c := gen(rt, proto.SchemeCMP, 4, false)
		c.Source, c.Sign = "dealer", false
		prop.One(rt, c)
	})
}

func TestCMPReal(t *testing.T) {
	rapid.Check(t, func(rt *rapid.T) {
		maxN := 2
		if ev.Get().Thorough() {
			maxN = 3
		}
		c := gen(rt, proto.SchemeCMP, maxN, false)
		c.Sign = rapid.Bool().Draw(rt, "signCMP")
		prop.One(rt, c)
	})
}
