package c01

import (
	"errors"
	"fmt"
	"sort"
	"strings"
	"testing"

	"github.com/taurusgroup/multi-party-sig/pkg/party"
	"github.com/taurusgroup/multi-party-sig/verifharness/conv"
	"github.com/taurusgroup/multi-party-sig/verifharness/fix"
	"github.com/taurusgroup/multi-party-sig/verifharness/pbt"
	"github.com/taurusgroup/multi-party-sig/verifharness/proto"
	"github.com/taurusgroup/multi-party-sig/verifharness/ref"
	"github.com/taurusgroup/multi-party-sig/verifharness/sim"
	"pgregory.net/rapid"
)

func TestMain(m *testing.M)   { pbt.Main(m) }
func TestReplay(t *testing.T) { pbt.Replay(t) }
func TestCorpus(t *testing.T) { pbt.Corpus(t) }

// Case is one signing session: who holds the key, how it was produced, who signs what, and the delivery schedule.
type Case struct {
	Scheme  string // cmp / frost / frost-taproot / doerner
	Proto   string // signing protocol
	N, T    int
	Family  string
	Pick    int
	Signers []int // indices into the sorted identifier list
	Msg     string
	KeyKind string // dealer, keygen, refreshed, derived, derived-refreshed
	Index   uint32 // BIP-32 index for derived material
	Seed    uint64
	Sched   []int
	Reuse   int // further signing sessions run afterwards on the same in-memory key material
}

func subsetShape(signers []int, n int) string {
	s := append([]int{}, signers...)
	sort.Ints(s)
	if len(s) == n {
		return "full"
	}
	for i, v := range s {
		if v != i {
			return "non-prefix"
		}
	}
	return "prefix"
}

func msgClass(l int) string {
	switch {
	case l < 32:
		return "<32"
	case l == 32:
		return "32"
	default:
		return ">32"
	}
}

func schedShape(s []int) string {
	dup, re := false, false
	for _, v := range s {
		if (v>>12)&1 == 1 {
			dup = true
		}
		if v&0xFFF != 0 {
			re = true
		}
	}
	return fmt.Sprintf("reorder=%v,dup=%v", re, dup)
}

func classify(c Case) (string, bool) {
	shape := subsetShape(c.Signers, c.N)
	nt := shape == "non-prefix" || len(c.Msg) != 64 || c.KeyKind != "dealer" && c.KeyKind != "keygen" || schedShape(c.Sched) != "reorder=false,dup=false"
	nt = nt || c.Reuse > 0
	return fmt.Sprintf("%s|n=%d|t=%d|s=%d|%s|msg%s|%s|%s|%s|reuse=%d", c.Proto, c.N, c.T, len(c.Signers), shape, msgClass(len(c.Msg)/2), c.KeyKind, c.Family, schedShape(c.Sched), c.Reuse), nt
}

// material builds the key material described by the case; pub is what the independent verifier uses.
func material(c Case) (*proto.Material, error) {
	ids := fix.IDs(c.Family, c.N, c.Pick)
	var m *proto.Material
	var err error
	base := c.KeyKind
	if c.Scheme == proto.SchemeDoerner || base == "keygen" {
		m, err = proto.Keygen(c.Scheme, c.Seed, ids, c.T, sim.FIFO)
	} else {
		m, err = proto.Deal(c.Scheme, c.Seed, ids, c.T)
	}
	if err != nil {
		return nil, err
	}
	switch c.KeyKind {
	case "refreshed":
		m, err = m.Refresh(c.Seed+1, sim.FIFO)
	case "derived":
		m, err = derive(m, c.Index)
	case "derived-twice":
		if m, err = derive(m, c.Index); err == nil {
			m, err = derive(m, c.Index^0x2a)
		}
	case "derived-refreshed":
		if m, err = derive(m, c.Index); err == nil {
			m, err = m.Refresh(c.Seed+1, sim.FIFO)
		}
	}
	return m, err
}

// derive applies BIP-32 derivation and replaces the oracle's key by the reference derivation of the parent key.
func derive(m *proto.Material, index uint32) (*proto.Material, error) {
	chain := chainKey(m)
	if len(chain) != 32 {
		return nil, fmt.Errorf("material has a %d-byte chain key", len(chain))
	}
	d, err := m.Derive(index)
	if err != nil {
		return nil, err
	}
	child, _, ok := ref.CKDpub(m.Pub, chain, index)
	if ok {
		if m.Scheme == proto.SchemeFrostTap && !child.EvenY() {
			child = child.Neg()
		}
		d.Pub = child // the verifier's key comes from the reference derivation, not from the library
	}
	return d, nil
}

func chainKey(m *proto.Material) []byte {
	switch m.Scheme {
	case proto.SchemeCMP:
		return m.CMP[m.IDs[0]].ChainKey
	case proto.SchemeFrost:
		return m.Frost[m.IDs[0]].ChainKey
	case proto.SchemeFrostTap:
		return m.FrostTap[m.IDs[0]].ChainKey
	}
	return m.DoernerR.ChainKey
}

func run(c Case) *pbt.Fail {
	m, err := material(c)
	if err != nil {
		if _, ok := err.(*proto.ErrIncomplete); ok {
			return pbt.Failf("setup-incomplete:"+c.Scheme+":"+c.KeyKind, err.Error())
		}
		return pbt.Failf("setup-error:"+c.Scheme+":"+c.KeyKind, err.Error())
	}
	for r := 0; r <= c.Reuse; r++ {
		// session r uses the SAME in-memory key material as the sessions before it (a key is used to sign many times),
		// with its own message, session identifier and (rotated) signer subset
		msg := conv.UnHex(c.Msg)
		if r > 0 {
			msg = append(msg, byte(r))
		}
		var signers []party.ID
		for _, i := range c.Signers {
			signers = append(signers, m.IDs[(i+r)%len(m.IDs)])
		}
		if f := signOnce(c, m, signers, msg, r); f != nil {
			if r > 0 {
				f.Detail = fmt.Sprintf("in signing session %d with the same key material: %s", r+1, f.Detail)
			}
			return f
		}
	}
	return nil
}

func signOnce(c Case, m *proto.Material, signers []party.ID, msg []byte, r int) *pbt.Fail {
	sid := []byte(fmt.Sprintf("c01-%d-%d", c.Seed, r))
	seed := c.Seed + uint64(10*r)
	p := c.Proto
	var pre *proto.Session
	if p == proto.CMPPresignOnline {
		ps := m.SignSession(proto.CMPPresign, signers, nil, sid)
		res, _, err := proto.RunHonest(ps, seed+2, sim.FromList(c.Sched))
		if err != nil {
			return failFrom("presign", err)
		}
		pres, err := proto.PreSignatures(res)
		if err != nil {
			return pbt.Failf("presign-result-type", err.Error())
		}
		pre = m.SignSession(proto.CMPPresignOnline, signers, msg, sid)
		pre.Pre = pres
	}
	s := pre
	if s == nil {
		s = m.SignSession(p, signers, msg, sid)
	}
	res, _, err := proto.RunHonest(s, seed+3, sim.FromList(c.Sched))
	if err != nil {
		return failFrom(p, err)
	}
	var first []byte
	for _, id := range s.Order() {
		if err := proto.CheckSignature(p, res[id], m.Pub, msg); err != nil {
			return pbt.Failf("invalid-signature:"+p+":"+c.KeyKind, fmt.Sprintf("party %q: %v", id, err))
		}
		b := proto.SigBytes(res[id])
		if first == nil {
			first = b
		} else if !proto.EqualBytes(first, b) {
			return pbt.Failf("signatures-differ:"+p, fmt.Sprintf("party %q returned %x, first party %x", id, b, first))
		}
	}
	return nil
}

func failFrom(stage string, err error) *pbt.Fail {
	if strings.Contains(err.Error(), "cbor: invalid UTF-8 string") {
		// identifiers that are not valid UTF-8 cannot cross the library's CBOR encoding (recorded finding)
		return pbt.Failf("non-utf8-id:"+stage, err.Error())
	}
	if pe, ok := err.(*sim.PanicError); ok {
		return pbt.Failf("panic:"+stage, pe.Error()+"\n"+pe.Stack)
	}
	if _, ok := err.(*proto.ErrIncomplete); ok {
		return pbt.Failf("incomplete:"+stage, err.Error())
	}
	var he *sim.HangError
	if errors.As(err, &he) {
		if he.Definite {
			return pbt.Failf("constructor-hang:"+stage, "handler construction blocks forever sending on its own outgoing channel:\n"+he.Stack)
		}
		return pbt.Failf("inconclusive:hang", err.Error())
	}
	return pbt.Failf("error:"+stage, err.Error())
}

func genCase(t *rapid.T, scheme string, protos []string, maxN int, kinds []string) Case {
	c := Case{Scheme: scheme}
	c.Proto = rapid.SampledFrom(protos).Draw(t, "proto")
	if scheme == proto.SchemeDoerner {
		c.N, c.T = 2, 1
		c.Signers = []int{0, 1}
	} else {
		c.N = rapid.IntRange(1, maxN).Draw(t, "n")
		c.T = rapid.IntRange(0, c.N-1).Draw(t, "t")
		k := rapid.IntRange(c.T+1, c.N).Draw(t, "signers")
		perm := rapid.Permutation(seq(c.N)).Draw(t, "perm")
		c.Signers = append([]int{}, perm[:k]...)
		sort.Ints(c.Signers)
	}
	c.Family = rapid.SampledFrom(fix.Families).Draw(t, "family")
	c.Pick = rapid.IntRange(0, 7).Draw(t, "pick")
	l := rapid.SampledFrom([]int{1, 20, 31, 32, 32, 32, 33, 64, 100, -1}).Draw(t, "msgLen")
	if l < 0 {
		l = rapid.IntRange(1, 100).Draw(t, "msgLenRand")
	}
	c.Msg = conv.Hex(rapid.SliceOfN(rapid.Byte(), l, l).Draw(t, "msg"))
	c.KeyKind = rapid.SampledFrom(kinds).Draw(t, "keyKind")
	c.Index = rapid.SampledFrom([]uint32{0, 1, 1<<31 - 1, 7, 1000003}).Draw(t, "index")
	c.Seed = rapid.Uint64Range(1, 1<<40).Draw(t, "seed")
	c.Sched = rapid.SliceOfN(rapid.IntRange(0, 8191), 0, 40).Draw(t, "sched")
	if scheme == proto.SchemeCMP {
		c.Reuse = rapid.SampledFrom([]int{0, 0, 0, 1}).Draw(t, "reuse")
	} else {
		c.Reuse = rapid.SampledFrom([]int{0, 1, 2}).Draw(t, "reuse")
	}
	return c
}

func seq(n int) []int {
	out := make([]int, n)
	for i := range out {
		out[i] = i
	}
	return out
}

var prop = pbt.Define(pbt.Prop[Case]{Kind: "sign-session", Class: classify, Run: run})

func TestFrost(t *testing.T) {
	rapid.Check(t, func(rt *rapid.T) {
		scheme := rapid.SampledFrom([]string{proto.SchemeFrost, proto.SchemeFrostTap}).Draw(rt, "scheme")
		c := genCase(rt, scheme, []string{proto.SignProto(scheme)}, 6, []string{"dealer", "keygen", "refreshed", "derived", "derived-twice", "derived-refreshed"})
		prop.One(rt, c)
	})
}

func TestDoerner(t *testing.T) {
	rapid.Check(t, func(rt *rapid.T) {
		c := genCase(rt, proto.SchemeDoerner, []string{proto.DoernerSign}, 2, []string{"keygen", "refreshed", "derived", "derived-twice", "derived-refreshed"})
		prop.One(rt, c)
	})
}

func TestCMP(t *testing.T) {
	rapid.Check(t, func(rt *rapid.T) {
		maxN := 3
		if evThorough() {
			maxN = 4
		}
		c := genCase(rt, proto.SchemeCMP, []string{proto.CMPSign, proto.CMPPresignOnline, proto.CMPPresignFull}, maxN, []string{"dealer", "dealer", "derived", "derived-twice", "refreshed"})
		if c.KeyKind == "refreshed" && c.N > 3 {
			c.KeyKind = "dealer"
		}
		prop.One(rt, c)
	})
}
