package c01

import "github.com/taurusgroup/multi-party-sig/verifharness/ev"

func evThorough() bool { return ev.Get().Thorough() }
