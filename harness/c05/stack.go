package c05

import "runtime/debug"

func stack() string { return string(debug.Stack()) }
