package c05

import (
	"testing"

	"github.com/taurusgroup/multi-party-sig/verifharness/advrun"
	"github.com/taurusgroup/multi-party-sig/verifharness/conv"
	"github.com/taurusgroup/multi-party-sig/verifharness/proto"
)

// FuzzAccept (thorough tier): arbitrary bytes as the content of a message that is in flight to an honest party of a
// FROST / Doerner / xor session, at a fuzzer-chosen moment. The real contents of every message kind are the seed corpus.
func FuzzAccept(f *testing.F) {
	setups := []advrun.Setup{{Proto: proto.FrostKeygen, N: 2, T: 1, Seed: 1}, {Proto: proto.FrostSign, N: 2, T: 1, Seed: 1}, {Proto: proto.FrostRefresh, N: 2, T: 1, Seed: 1},
		{Proto: proto.DoernerKeygen, N: 2, T: 1, Seed: 1}, {Proto: proto.DoernerSign, N: 2, T: 1, Seed: 1}, {Proto: proto.XOR, N: 3, T: 0, Seed: 1}}
	for si, s := range setups {
		msgs, err := baseline(Case{Setup: s})
		if err != nil {
			f.Fatal(err)
		}
		for ti, m := range msgs {
			if m.RoundNumber != 0 && len(m.Data) < 20000 {
				f.Add(uint8(si), uint8(ti), uint8(ti), m.Data)
			}
		}
	}
	f.Fuzz(func(t *testing.T, which, at, template uint8, data []byte) {
		c := Case{Setup: setups[int(which)%len(setups)], Victim: int(template) % 3, At: int(at) % 12, Template: int(template), Mode: "raw", Bytes: conv.Hex(data)}
		prop.One(t, c)
	})
}
