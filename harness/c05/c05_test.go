package c05

import (
	"errors"
	"fmt"
	"strings"
	"testing"
	"time"

	"github.com/taurusgroup/multi-party-sig/internal/round"
	"github.com/taurusgroup/multi-party-sig/pkg/party"
	"github.com/taurusgroup/multi-party-sig/pkg/protocol"
	"github.com/taurusgroup/multi-party-sig/verifharness/adv"
	"github.com/taurusgroup/multi-party-sig/verifharness/advrun"
	"github.com/taurusgroup/multi-party-sig/verifharness/conv"
	"github.com/taurusgroup/multi-party-sig/verifharness/ev"
	"github.com/taurusgroup/multi-party-sig/verifharness/fix"
	"github.com/taurusgroup/multi-party-sig/verifharness/mut"
	"github.com/taurusgroup/multi-party-sig/verifharness/pbt"
	"github.com/taurusgroup/multi-party-sig/verifharness/proto"
	"github.com/taurusgroup/multi-party-sig/verifharness/sim"
	"github.com/taurusgroup/multi-party-sig/verifharness/tape"
	"pgregory.net/rapid"
)

func TestMain(m *testing.M)   { pbt.Main(m) }
func TestReplay(t *testing.T) { pbt.Replay(t) }
func TestCorpus(t *testing.T) { pbt.Corpus(t) }

// Case: an honest session (optionally with a deviating presigner, to reach the abort rounds) into which one
// malformed message is injected at a chosen moment.
type Case struct {
	Setup     advrun.Setup
	Deviation string // "" or a presigner deviation (makes the abort rounds reachable); the cheater is party 0
	Victim    int
	At        int // the injection happens before delivery number At
	Template  int // which real message of the baseline run is the template
	Mode      string
	Kind      string // malformation kind
	Pick, Arg int
	Bytes     string // Mode == raw: the Data bytes
	// sweep mode: the template is message number SweepTemplate-1 of the in-order run and is injected as soon as the
	// victim has reached (or passed) the round before it; the malformation is applied to node SweepNode
	SweepTemplate, SweepNode int
}

var headerKinds = []string{"to-empty", "to-other", "to-unknown", "to-self-from-self", "from-unknown", "from-victim", "round-0", "round-minus1", "round-plus1", "round-final+1", "round-65535",
	"flip-broadcast", "ssid-nil", "ssid-short", "ssid-long", "data-nil", "data-empty", "bv-garbage", "bv-nil", "protocol-other", "nil-message"}

// baseline runs the (possibly deviating) session in order and returns every message that was sent.
var baseCache = map[string][]*sim.Msg{}

func sessionFor(c Case) (*proto.Session, error) {
	sess, _, err := advrun.Build(c.Setup)
	if err != nil {
		return nil, err
	}
	if c.Deviation != "" {
		cheater := sess.Order()[0]
		hooks := advrun.DeviationHooks(c.Deviation)
		sess.Wrap = func(id party.ID, f protocol.StartFunc) protocol.StartFunc {
			if id == cheater {
				return adv.WrapStart(f, hooks)
			}
			return f
		}
	}
	return sess, nil
}

func install(c Case) (*tape.Mux, func()) {
	mux := tape.Install(c.Setup.Seed)
	un := func() {}
	if c.Setup.Proto == proto.CMPKeygen || c.Setup.Proto == proto.CMPRefresh {
		un = fix.InstallPrimeSource(int(c.Setup.Seed % 31))
	}
	return mux, func() { un(); mux.Uninstall() }
}

func baseline(c Case) ([]*sim.Msg, error) {
	key := fmt.Sprintf("%v/%s", c.Setup, c.Deviation)
	if v, ok := baseCache[key]; ok {
		return v, nil
	}
	sess, err := sessionFor(c)
	if err != nil {
		return nil, err
	}
	mux, undo := install(c)
	defer undo()
	n := sim.New(mux)
	if err := sess.AddAll(n); err != nil {
		return nil, err
	}
	if err := n.Run(sim.FIFO, 100000); err != nil {
		return nil, err
	}
	var all []*sim.Msg
	for _, p := range n.Parties {
		all = append(all, p.Sent...)
	}
	baseCache[key] = all
	return all, nil
}

var lastWhat string

func run(c Case) *pbt.Fail {
	lastWhat = ""
	msgs, err := baseline(c)
	if err != nil {
		return failOf(err, "baseline")
	}
	if len(msgs) == 0 {
		return nil
	}
	sess, err := sessionFor(c)
	if err != nil {
		return pbt.Failf("harness-error", err.Error())
	}
	mux, undo := install(c)
	defer undo()
	n := sim.New(mux)
	n.StepTimeout = 150 * time.Second
	if err := sess.AddAll(n); err != nil {
		return failOf(err, "construct")
	}
	victim := n.Parties[c.Victim%len(n.Parties)]
	injected := false
	for len(n.Pending) > 0 || !injected {
		if !injected && c.SweepTemplate > 0 {
			// wait until the genuine counterpart of the template is in flight to the victim, then replace it
			tpl := msgs[(c.SweepTemplate-1)%len(msgs)]
			at := -1
			for i, d := range n.Pending {
				if d.To == victim.Name && d.M.RoundNumber == tpl.RoundNumber && d.M.Broadcast == tpl.Broadcast && d.M.From == tpl.From {
					at = i
				}
			}
			if at < 0 && len(n.Pending) > 0 {
				if err := n.Step(0, false); err != nil {
					return failOf(err, "before-injection")
				}
				continue
			}
			injected = true
			if at < 0 {
				lastWhat = "never-in-flight|not-applicable"
				break
			}
			m := sim.Clone(n.Pending[at].M)
			n.Pending = append(n.Pending[:at:at], n.Pending[at+1:]...)
			if c.Mode == "header" {
				// header sweep: the genuine in-flight message with one header field altered
				m, lastWhat = malform(c, m, victim, n)
			} else {
				root, err := mut.Decode(m.Data)
				if err != nil {
					break
				}
				path, ok := mut.Shape(root, c.SweepNode, c.Kind, c.Arg)
				if !ok {
					lastWhat = "sweep|not-applicable"
					n.Inject(string(m.From), m, victim.Name, false)
					continue
				}
				m.Data = mut.Encode(root)
				lastWhat = fmt.Sprintf("r%d/bc=%v|%s|%s", m.RoundNumber, m.Broadcast, mut.Generic(path), c.Kind)
			}
			n.Tape.Use(victim.Name)
			perr := guardCall("CanAccept", func() { _ = victim.H.CanAccept(m) })
			if perr == nil {
				var out []*sim.Msg
				out, perr = n.Call(victim, "Accept", func() { victim.H.Accept(m) })
				for _, o := range out {
					n.Post(victim, o)
				}
			}
			if perr != nil {
				return failOf(perr, "malformed:"+lastWhat)
			}
			if f := legal(victim, "after the malformed message ("+lastWhat+")"); f != nil {
				return f
			}
			continue
		}
		if !injected && (n.Steps >= c.At || len(n.Pending) == 0) {
			injected = true
			// prefer a message that is really in flight to the victim (it replaces the genuine one, so it is certain to
			// be processed now or as soon as its round is reached); otherwise any message of the in-order run
			tpl := sim.Clone(msgs[c.Template%len(msgs)])
			var cand []int
			for i, d := range n.Pending {
				if d.To == victim.Name {
					cand = append(cand, i)
				}
			}
			if len(cand) > 0 && c.Template%4 != 3 {
				i := cand[c.Template%len(cand)]
				tpl = sim.Clone(n.Pending[i].M)
				n.Pending = append(n.Pending[:i:i], n.Pending[i+1:]...)
			}
			inj, what := malform(c, tpl, victim, n)
			lastWhat = what
			// the malformed message goes straight to the victim: first CanAccept, then Accept regardless (the
			// property covers both calls for any input)
			var perr error
			n.Tape.Use(victim.Name)
			perr = guardCall("CanAccept", func() { _ = victim.H.CanAccept(inj) })
			if perr == nil {
				var out []*sim.Msg
				out, perr = n.Call(victim, "Accept", func() { victim.H.Accept(inj) })
				for _, m := range out {
					n.Post(victim, m)
				}
			}
			if perr != nil {
				return failOf(perr, "malformed:"+what)
			}
			if f := legal(victim, "after the malformed message ("+what+")"); f != nil {
				return f
			}
			continue
		}
		if len(n.Pending) == 0 {
			break
		}
		if err := n.Step(0, false); err != nil {
			return failOf(err, "after:"+lastWhat)
		}
	}
	for _, p := range n.Parties {
		if f := legal(p, "at the end ("+lastWhat+")"); f != nil {
			return f
		}
	}
	return nil
}

func guardCall(where string, f func()) (err error) {
	defer func() {
		if x := recover(); x != nil {
			err = &sim.PanicError{Where: where, Value: x, Stack: stack()}
		}
	}()
	f()
	return nil
}

// legal: the party is either still running, or ended cleanly (channel closed, Result is a value xor an error).
func legal(p *sim.Party, when string) *pbt.Fail {
	var v interface{}
	var err error
	if perr := guardCall("Result", func() { v, err = p.H.Result() }); perr != nil {
		return failOf(perr, "Result")
	}
	notFinished := v == nil && err != nil && err.Error() == "protocol: not finished"
	if v != nil && err != nil {
		return pbt.Failf("illegal-state:value-and-error", fmt.Sprintf("party %q %s: Result returns both", p.Name, when))
	}
	if !notFinished && !p.Closed {
		return pbt.Failf("illegal-state:ended-but-open", fmt.Sprintf("party %q %s: the session ended (%v) but the outgoing channel is open", p.Name, when, err))
	}
	if notFinished && p.Closed {
		return pbt.Failf("illegal-state:closed-but-running", fmt.Sprintf("party %q %s: the outgoing channel is closed but Result says not finished", p.Name, when))
	}
	return nil
}

func failOf(err error, stage string) *pbt.Fail {
	var pe *sim.PanicError
	if errors.As(err, &pe) {
		site := ev.PanicSite(pe.Stack)
		return pbt.Failf("panic:"+site, fmt.Sprintf("%s (%s): %v\n%s", pe.Where, stage, pe.Value, trim(pe.Stack)))
	}
	if strings.Contains(err.Error(), "step timeout") {
		return pbt.Failf("hang:"+stage, err.Error())
	}
	var he *sim.HangError
	if errors.As(err, &he) {
		return pbt.Failf("inconclusive:hang", err.Error())
	}
	return pbt.Failf("harness-error:"+stage, err.Error())
}

func trim(s string) string {
	var keep []string
	for _, l := range strings.Split(s, "\n") {
		if strings.Contains(l, "/repo/") || strings.Contains(l, "fxamacker") || strings.Contains(l, "saferith") {
			keep = append(keep, strings.TrimSpace(l))
		}
		if len(keep) > 10 {
			break
		}
	}
	return strings.Join(keep, "\n")
}

// malform turns a real message into the hostile one described by the case.
func malform(c Case, m *sim.Msg, victim *sim.Party, n *sim.Net) (*sim.Msg, string) {
	kindOf := fmt.Sprintf("r%d/bc=%v", m.RoundNumber, m.Broadcast)
	// unless the header itself is the subject, address the message so that it reaches the victim's decoder
	if m.From == victim.ID {
		for _, p := range n.Parties {
			if p.ID != victim.ID {
				m.From = p.ID
				break
			}
		}
	}
	if !m.Broadcast && m.To != "" {
		m.To = victim.ID
	}
	switch c.Mode {
	case "raw":
		m.Data = conv.UnHex(c.Bytes)
		return m, kindOf + "|raw-bytes"
	case "header":
		switch c.Kind {
		case "to-empty":
			m.To = ""
		case "to-other":
			for _, p := range n.Parties {
				if p.ID != victim.ID && p.ID != m.From {
					m.To = p.ID
				}
			}
		case "to-unknown":
			m.To = "nobody"
		case "to-self-from-self":
			m.To, m.From = victim.ID, victim.ID
		case "from-unknown":
			m.From = "nobody"
		case "from-victim":
			m.From = victim.ID
		case "round-0":
			m.RoundNumber = 0
		case "round-minus1":
			m.RoundNumber--
		case "round-plus1":
			m.RoundNumber++
		case "round-final+1":
			m.RoundNumber = round.Number(9 + c.Arg%3)
		case "round-65535":
			m.RoundNumber = 65535
		case "flip-broadcast":
			m.Broadcast = !m.Broadcast
			if !m.Broadcast {
				m.To = victim.ID
			} else {
				m.To = ""
			}
		case "ssid-nil":
			m.SSID = nil
		case "ssid-short":
			m.SSID = m.SSID[:len(m.SSID)/2]
		case "ssid-long":
			m.SSID = append(m.SSID, 1)
		case "data-nil":
			m.Data = nil
		case "data-empty":
			m.Data = []byte{}
		case "bv-garbage":
			m.BroadcastVerification = []byte{1, 2, 3}
		case "bv-nil":
			m.BroadcastVerification = nil
		case "protocol-other":
			m.Protocol = "frost/keygen-threshold"
		case "nil-message":
			return nil, "nil-message"
		}
		return m, kindOf + "|header:" + c.Kind
	}
	root, err := mut.Decode(m.Data)
	if err != nil {
		return m, kindOf + "|undecodable-template"
	}
	app := mut.Applicable(root, c.Kind)
	if len(app) == 0 {
		return m, kindOf + "|not-applicable"
	}
	path, _ := mut.Shape(root, app[c.Pick%len(app)], c.Kind, c.Arg)
	m.Data = mut.Encode(root)
	return m, fmt.Sprintf("%s|%s|%s", kindOf, mut.Generic(path), c.Kind)
}

var prop = pbt.Define(pbt.Prop[Case]{Kind: "malformed-message", Run: run, Journal: true, Class: func(c Case) (string, bool) {
	return fmt.Sprintf("%s|dev=%s|%s", c.Setup.Proto, c.Deviation, lastWhat), !strings.HasSuffix(lastWhat, "not-applicable")
}})

var cheapProtos = []string{proto.FrostKeygen, proto.FrostKeygenTap, proto.FrostRefresh, proto.FrostSign, proto.FrostSignTap, proto.DoernerKeygen, proto.DoernerRefresh, proto.DoernerSign, proto.XOR}
var cmpProtos = []string{proto.CMPKeygen, proto.CMPRefresh, proto.CMPSign, proto.CMPPresign, proto.CMPPresignFull, proto.CMPPresignOnline}

func gen(t *rapid.T, protos []string) Case {
	p := rapid.SampledFrom(protos).Draw(t, "proto")
	c := Case{Setup: advrun.Setup{Proto: p, Seed: rapid.Uint64Range(1, 2).Draw(t, "seed")}}
	switch {
	case strings.HasPrefix(p, "doerner"):
		c.Setup.N, c.Setup.T = 2, 1
	case strings.HasPrefix(p, "cmp-"):
		c.Setup.N = rapid.IntRange(2, 3).Draw(t, "n")
		c.Setup.T = c.Setup.N - 1
	default:
		c.Setup.N = rapid.IntRange(2, 3).Draw(t, "n")
		c.Setup.T = c.Setup.N - 1
	}
	if (p == proto.CMPPresign || p == proto.CMPPresignFull) && rapid.IntRange(0, 2).Draw(t, "abortRounds") == 0 {
		c.Deviation = rapid.SampledFrom([]string{"gamma-for-delta", "x-for-chi"}).Draw(t, "deviation")
	}
	c.Victim = rapid.IntRange(0, c.Setup.N-1).Draw(t, "victim")
	c.At = rapid.IntRange(0, 40).Draw(t, "at")
	c.Template = rapid.IntRange(0, 200).Draw(t, "template")
	c.Mode = rapid.SampledFrom([]string{"shape", "shape", "shape", "shape", "header", "raw"}).Draw(t, "mode")
	c.Pick = rapid.IntRange(0, 5000).Draw(t, "pick")
	c.Arg = rapid.IntRange(0, 255).Draw(t, "arg")
	switch c.Mode {
	case "shape":
		c.Kind = rapid.SampledFrom(mut.ShapeKinds).Draw(t, "kind")
	case "header":
		c.Kind = rapid.SampledFrom(headerKinds).Draw(t, "kind")
	default:
		b := rapid.SampledFrom([][]byte{{}, {0xf6}, {0xa0}, {0x80}, {0x40}, {0xff}, {0xbf}, {0x9f}, {0x5b, 0xff, 0xff, 0xff, 0xff, 0xff, 0xff, 0xff, 0xff}, {0x9b, 0x7f, 0xff, 0xff, 0xff, 0xff, 0xff, 0xff, 0xff},
			{0xbb, 0x00, 0x00, 0x00, 0x01, 0x00, 0x00, 0x00, 0x00}}).Draw(t, "bytes")
		if rapid.Bool().Draw(t, "randBytes") {
			b = rapid.SliceOfN(rapid.Byte(), 0, 80).Draw(t, "rbytes")
		}
		c.Bytes = conv.Hex(b)
	}
	return c
}

func TestCheap(t *testing.T) {
	rapid.Check(t, func(rt *rapid.T) { prop.One(rt, gen(rt, cheapProtos)) })
}

func TestCMP(t *testing.T) {
	rapid.Check(t, func(rt *rapid.T) { prop.One(rt, gen(rt, cmpProtos)) })
}

// TestDoerner concentrates on the two-party protocols, whose OT messages are large and deeply nested.
func TestDoerner(t *testing.T) {
	rapid.Check(t, func(rt *rapid.T) {
		prop.One(rt, gen(rt, []string{proto.DoernerKeygen, proto.DoernerRefresh, proto.DoernerSign, proto.DoernerSign}))
	})
}

// TestSweep (thorough) visits EVERY node of EVERY message kind of every protocol with the malformations that
// most often expose a missing check (absent, null, wrong container, empty), one run per (node, malformation).
func TestSweep(t *testing.T) {
	sweep(t, append(append([]string{}, cheapProtos...), cmpProtos...), []string{"absent", "null", "empty-map", "empty-bytes", "type-int", "empty-array"}, 0, nil)
}

// TestSweepPrefix (quick) visits every length-prefixed binary field (polynomial exponents) of every message kind with
// every hostile element count: maximal, zero, one too many, and the counts whose byte size wraps around 2^32.
func TestSweepPrefix(t *testing.T) {
	hasPrefix := func(n *mut.Node) bool { return n.K == mut.Bytes && n.Inner != nil && len(n.Prefix) == 4 }
	sweep(t, []string{proto.FrostKeygen, proto.FrostKeygenTap, proto.FrostRefresh, proto.CMPKeygen}, []string{"count-prefix-max", "count-prefix-zero", "count-prefix-plus1",
		"count-prefix-wrap", "count-prefix-wrap+1", "count-prefix-wrap+2", "count-prefix-wrap+3"}, 0, hasPrefix)
}

// TestSweepAbort (quick) is the part of the sweep that only a deviating presigner makes reachable: every node of the
// messages of the identifiable-abort rounds of cmp presign (abort1 after a wrong delta, abort2 after a wrong chi),
// absent or null.
func TestSweepAbort(t *testing.T) {
	sweep(t, []string{proto.CMPPresign}, []string{"absent", "null"}, 7, nil)
}

// TestSweepHeader replaces, for every message kind (protocol, round, broadcast or direct), the genuine in-flight message
// by a copy with ONE header field altered, for every header alteration. Quick: the cheap protocols completely, and for
// cmp keygen / sign the alterations that still pass the handler's admission test (empty recipient, flipped broadcast flag,
// altered echo hash); thorough: everything.
func TestSweepHeader(t *testing.T) {
	rec := ev.Get()
	i := 0
	type plan struct {
		protos []string
		kinds  []string
	}
	plans := []plan{{cheapProtos, headerKinds}, {[]string{proto.CMPKeygen, proto.CMPSign}, []string{"to-empty", "flip-broadcast", "bv-garbage"}}}
	if rec.Thorough() {
		plans = []plan{{append(append([]string{}, cheapProtos...), cmpProtos...), headerKinds}}
	}
	for _, pl := range plans {
		for _, p := range pl.protos {
			c := Case{Setup: advrun.Setup{Proto: p, N: 2, T: 1, Seed: 1}, Mode: "header"}
			msgs, err := baseline(c)
			if err != nil {
				t.Fatalf("%s: %v", p, err)
			}
			order := sessionOrder(c)
			seen := map[string]bool{}
			for ti, m := range msgs {
				key := fmt.Sprintf("%d/%v", m.RoundNumber, m.Broadcast)
				if m.RoundNumber == 0 || seen[key] {
					continue
				}
				seen[key] = true
				for _, k := range pl.kinds {
					i++
					if !rec.Mine(i) {
						continue
					}
					cc := c
					cc.Kind, cc.SweepTemplate, cc.Arg = k, ti+1, i
					for vi, id := range order {
						if m.IsFor(id) {
							cc.Victim = vi
						}
					}
					prop.One(t, cc)
				}
			}
		}
	}
}

func sweep(t *testing.T, protos, kinds []string, minRound int, filter func(*mut.Node) bool) {
	rec := ev.Get()
	i := 0
	for _, p := range protos {
		devs := []string{""}
		if p == proto.CMPPresign || p == proto.CMPPresignFull {
			devs = []string{"", "gamma-for-delta", "x-for-chi"}
		}
		if minRound > 0 {
			devs = devs[1:]
		}
		for _, dev := range devs {
			c := Case{Setup: advrun.Setup{Proto: p, N: 2, T: 1, Seed: 1}, Deviation: dev, Mode: "shape"}
			msgs, err := baseline(c)
			if err != nil {
				t.Fatalf("%s: %v", p, err)
			}
			seen := map[string]bool{}
			for ti, m := range msgs {
				if m.RoundNumber == 0 || int(m.RoundNumber) < minRound {
					continue
				}
				root, err := mut.Decode(m.Data)
				if err != nil {
					continue
				}
				for ni, r := range mut.Walk(root) {
					if filter != nil && !filter(r.Node) {
						continue
					}
					key := fmt.Sprintf("%d/%v/%s", m.RoundNumber, m.Broadcast, mut.Generic(r.Path))
					if seen[key] {
						continue
					}
					seen[key] = true
					for _, k := range kinds {
						i++
						if !rec.Mine(i) {
							continue
						}
						cc := c
						cc.Kind, cc.SweepTemplate, cc.SweepNode = k, ti+1, ni
						if strings.HasPrefix(k, "count-prefix-wrap+") {
							// the same malformation for the other element sizes (Arg selects size and offset)
							cc.Kind, cc.Arg = "count-prefix-wrap", int(k[len(k)-1]-'0')
						}
						// the victim is whoever the template is addressed to
						for vi, id := range sessionOrder(c) {
							if m.IsFor(id) {
								cc.Victim = vi
							}
						}
						prop.One(t, cc)
					}
				}
			}
		}
	}
}

func sessionOrder(c Case) []party.ID {
	sess, _, err := advrun.Build(c.Setup)
	if err != nil {
		return nil
	}
	return sess.Order()
}
