package c15

import (
	"testing"

	"github.com/taurusgroup/multi-party-sig/verifharness/conv"
)

// FuzzRestore hands arbitrary bytes to the documented decoder of every stored type (thorough tier): the decoder must
// return an error, or an object that satisfies the validity rules; it must never panic.
func FuzzRestore(f *testing.F) {
	fx := getFixture(3, 1)
	for i, typ := range types {
		o := fx.object(typ, 0)
		if b, err := o.encode(); err == nil {
			f.Add(uint8(i), b)
		}
	}
	f.Add(uint8(0), []byte{0xf6})
	f.Add(uint8(1), []byte{0xa0})
	f.Fuzz(func(t *testing.T, which uint8, data []byte) {
		c := corruptCase{Type: types[int(which)%len(types)], Mode: "bytes", Kind: "replace", Bytes: conv.Hex(data)}
		corruptProp.One(t, c)
	})
}
