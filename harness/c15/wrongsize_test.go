package c15

import (
	"fmt"
	"math/big"
	"testing"

	"github.com/taurusgroup/multi-party-sig/verifharness/ev"
	"github.com/taurusgroup/multi-party-sig/verifharness/mut"
	"github.com/taurusgroup/multi-party-sig/verifharness/pbt"
)

// Wrong-size moduli, built consistently. A single-field corruption of a stored prime is caught by whatever check comes
// first; here the blob is what an adversary who wants a SMALL modulus accepted would store: one secret prime replaced by
// a well-known safe Blum prime of the wrong size (RFC 2409 group 1, 768 bits; RFC 3526 group 5, 1536 bits), the own
// public modulus recomputed, the own Pedersen parameters reduced below it, and the prime encoded minimally, left-padded
// with zero bytes to the expected 128 bytes, or padded by one byte. "Wrong-size moduli" is one of the validity rules.

var (
	oakley768, _ = new(big.Int).SetString("FFFFFFFFFFFFFFFFC90FDAA22168C234C4C6628B80DC1CD129024E088A67CC74020BBEA63B139B22514A08798E3404DDEF9519B3CD3A431B302B0A6DF25F14374FE1356D6D51C245E485B576625E7EC6F44C42E9A63A3620FFFFFFFFFFFFFFFF", 16)
	modp1536, _  = new(big.Int).SetString("FFFFFFFFFFFFFFFFC90FDAA22168C234C4C6628B80DC1CD129024E088A67CC74020BBEA63B139B22514A08798E3404DDEF9519B3CD3A431B302B0A6DF25F14374FE1356D6D51C245E485B576625E7EC6F44C42E9A637ED6B0BFF5CB6F406B7EDEE386BFB5A899FA5AE9F24117C4B1FE649286651ECE45B3DC2007CB8A163BF0598DA48361C55D39A69163FA8FD24CF5F83655D23DCA3AD961C62F356208552BB9ED529077096966D670C354E4ABC9804F1746C08CA237327FFFFFFFFFFFFFFFF", 16)
)

type sizeCase struct {
	N, T    int
	Who     int
	Slot    string // P or Q
	Prime   string // small, big
	Padding string // minimal, to128, plus1
}

var lastSize string

func sizeRun(c sizeCase) *pbt.Fail {
	lastSize = ""
	f := getFixture(c.N, c.T)
	o := f.object("cmp.Config", c.Who)
	good, err := o.encode()
	if err != nil {
		return pbt.Failf("encode-error:cmp.Config", err.Error())
	}
	root, err := mut.Decode(good)
	if err != nil {
		return pbt.Failf("harness-cbor", err.Error())
	}
	get := func(path string) *mut.Ref {
		r := mut.Find(root, path)
		if r == nil || r.Node.K != mut.Bytes {
			return nil
		}
		return r
	}
	pr, qr, idr := get("/P"), get("/Q"), mut.Find(root, "/ID")
	if pr == nil || qr == nil || idr == nil {
		return pbt.Failf("harness-layout", "the stored cmp.Config no longer has /P, /Q, /ID")
	}
	np := oakley768
	if c.Prime == "big" {
		np = modp1536
	}
	other := new(big.Int).SetBytes(qr.Node.B)
	target := pr
	if c.Slot == "Q" {
		other, target = new(big.Int).SetBytes(pr.Node.B), qr
	}
	enc := np.Bytes()
	switch c.Padding {
	case "to128":
		if len(enc) < 128 {
			enc = append(make([]byte, 128-len(enc)), enc...)
		}
	case "plus1":
		enc = append([]byte{0}, enc...)
	}
	target.Replace(&mut.Node{K: mut.Bytes, B: enc})
	newN := new(big.Int).Mul(np, other)
	// the own public entry: N recomputed, S and T reduced below it
	done := false
	for i := 0; ; i++ {
		e := mut.Find(root, fmt.Sprintf("/Public/%d/ID", i))
		if e == nil {
			break
		}
		if e.Node.S != idr.Node.S {
			continue
		}
		for _, fld := range []string{"N", "S", "T"} {
			r := get(fmt.Sprintf("/Public/%d/%s", i, fld))
			if r == nil {
				return pbt.Failf("harness-layout", "the own public entry has no "+fld)
			}
			v := newN
			if fld != "N" {
				v = new(big.Int).Mod(new(big.Int).SetBytes(r.Node.B), newN)
			}
			r.Replace(&mut.Node{K: mut.Bytes, B: v.Bytes()})
		}
		done = true
	}
	if !done {
		return pbt.Failf("harness-layout", "own public entry not found")
	}
	lastSize = fmt.Sprintf("%s|%s|%s|N=%d bits", c.Slot, c.Prime, c.Padding, newN.BitLen())
	data := mut.Encode(root)
	var restored interface{}
	panicked, msg := ev.Guard(func() { restored, err = o.decode(data) })
	if panicked {
		return pbt.Failf("panic:decode:cmp.Config:"+ev.PanicSite(msg), "restoring a configuration with a wrong-size prime panics:\n"+msg)
	}
	if err != nil {
		return nil
	}
	if why := invalid(restored); why != "" {
		return pbt.Failf("accepts-invalid:cmp.Config:"+why, fmt.Sprintf("a stored configuration whose secret prime %s has %d bits (own modulus %d bits) is restored without an error (%s)", c.Slot, np.BitLen(), newN.BitLen(), lastSize))
	}
	return pbt.Failf("accepts-wrong-size-modulus:cmp.Config", fmt.Sprintf("a stored configuration whose secret prime %s has %d bits (own modulus %d bits) is restored without an error (%s)", c.Slot, np.BitLen(), newN.BitLen(), lastSize))
}

var sizeProp = pbt.Define(pbt.Prop[sizeCase]{Kind: "wrong-size-modulus", Run: sizeRun, Class: func(c sizeCase) (string, bool) {
	return "size|n=" + fmt.Sprint(c.N) + "|" + lastSize, true
}})

func TestWrongSizeModulus(t *testing.T) {
	for _, nt := range [][2]int{{2, 1}, {3, 1}} {
		for who := 0; who < nt[0]; who++ {
			for _, slot := range []string{"P", "Q"} {
				for _, prime := range []string{"small", "big"} {
					for _, pad := range []string{"minimal", "to128", "plus1"} {
						sizeProp.One(t, sizeCase{N: nt[0], T: nt[1], Who: who, Slot: slot, Prime: prime, Padding: pad})
					}
				}
			}
		}
	}
}
