package c15

import (
	"fmt"
	"testing"

	"github.com/taurusgroup/multi-party-sig/verifharness/ev"
	"github.com/taurusgroup/multi-party-sig/verifharness/mut"
	"github.com/taurusgroup/multi-party-sig/verifharness/pbt"
)

// Duplicate parties in a stored blob. A party list that is encoded as an ARRAY of entries carrying their own "ID"
// (cmp.Config.Public) can list a party twice, which only the decoder can notice: "duplicate or missing parties" is one
// of the validity rules the statement names, and the decoder has an explicit duplicate check. Every entry of every
// party's configuration (so in particular the entry of the configuration's OWN identifier) is duplicated in three ways:
// an identical copy appended, an identical copy put first, and a copy carrying another party's public data appended.
// (Map-encoded party tables cannot hold a key twice once decoded; they are covered by the generic corruptions.)

type dupCase struct {
	Type    string
	N, T    int
	Who     int // whose configuration
	Entry   int // which entry of the party list is duplicated
	Variant string
}

func partyLists(root *mut.Node) []mut.Ref {
	var out []mut.Ref
	for _, r := range mut.Walk(root) {
		n := r.Node
		if n.K != mut.Array || len(n.A) < 1 {
			continue
		}
		all := true
		for _, e := range n.A {
			has := false
			if e.K == mut.Map {
				for _, k := range e.MK {
					if k.K == mut.Text && k.S == "ID" {
						has = true
					}
				}
			}
			all = all && has
		}
		if all {
			out = append(out, r)
		}
	}
	return out
}

var lastDup string

func dupRun(c dupCase) *pbt.Fail {
	lastDup = "no-party-list"
	f := getFixture(c.N, c.T)
	o := f.object(c.Type, c.Who)
	good, err := o.encode()
	if err != nil {
		return pbt.Failf("encode-error:"+c.Type, err.Error())
	}
	root, err := mut.Decode(good)
	if err != nil {
		return pbt.Failf("harness-cbor", err.Error())
	}
	lists := partyLists(root)
	if len(lists) == 0 {
		return nil
	}
	for _, l := range lists {
		n := l.Node
		i := c.Entry % len(n.A)
		cp := n.A[i].Clone()
		switch c.Variant {
		case "append":
			n.A = append(n.A, cp)
		case "prepend":
			n.A = append([]*mut.Node{cp}, n.A...)
		case "append-other-data":
			if len(n.A) < 2 {
				return nil
			}
			other := n.A[(i+1)%len(n.A)].Clone()
			for k, key := range other.MK {
				if key.K == mut.Text && key.S == "ID" {
					for k2, key2 := range cp.MK {
						if key2.K == mut.Text && key2.S == "ID" {
							other.MV[k] = cp.MV[k2].Clone()
						}
					}
				}
			}
			n.A = append(n.A, other)
		}
		lastDup = fmt.Sprintf("%s|own=%v|%s", mut.Generic(l.Path), i == c.Who%len(n.A), c.Variant)
	}
	data := mut.Encode(root)
	var restored interface{}
	panicked, msg := ev.Guard(func() { restored, err = o.decode(data) })
	if panicked {
		return pbt.Failf("panic:decode:"+c.Type+":"+ev.PanicSite(msg), "restoring a blob with a duplicated party entry panics:\n"+msg)
	}
	_ = restored
	if err == nil {
		return pbt.Failf("accepts-duplicate-party:"+c.Type, fmt.Sprintf("a stored %s of party %d that lists party entry %d twice (%s) is restored without an error", c.Type, c.Who, c.Entry, lastDup))
	}
	return nil
}

var dupProp = pbt.Define(pbt.Prop[dupCase]{Kind: "duplicate-party", Run: dupRun, Class: func(c dupCase) (string, bool) {
	return fmt.Sprintf("dup|%s|n=%d|%s", c.Type, c.N, lastDup), lastDup != "no-party-list"
}})

// TestDuplicateParty enumerates type x (n,t) x configuration owner x duplicated entry x variant.
func TestDuplicateParty(t *testing.T) {
	for _, ty := range types {
		for _, nt := range [][2]int{{2, 1}, {3, 1}} {
			for who := 0; who < nt[0]; who++ {
				for entry := 0; entry < nt[0]; entry++ {
					for _, v := range []string{"append", "prepend", "append-other-data"} {
						dupProp.One(t, dupCase{Type: ty, N: nt[0], T: nt[1], Who: who, Entry: entry, Variant: v})
					}
				}
			}
		}
	}
}
