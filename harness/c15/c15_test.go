package c15

import (
	"bytes"
	"fmt"
	"math/big"
	"strings"
	"testing"

	"github.com/fxamacker/cbor/v2"
	"github.com/taurusgroup/multi-party-sig/pkg/ecdsa"
	"github.com/taurusgroup/multi-party-sig/pkg/math/curve"
	"github.com/taurusgroup/multi-party-sig/pkg/party"
	"github.com/taurusgroup/multi-party-sig/pkg/protocol"
	"github.com/taurusgroup/multi-party-sig/protocols/cmp"
	"github.com/taurusgroup/multi-party-sig/protocols/doerner"
	"github.com/taurusgroup/multi-party-sig/protocols/frost"
	"github.com/taurusgroup/multi-party-sig/verifharness/conv"
	"github.com/taurusgroup/multi-party-sig/verifharness/ev"
	"github.com/taurusgroup/multi-party-sig/verifharness/fix"
	"github.com/taurusgroup/multi-party-sig/verifharness/mut"
	"github.com/taurusgroup/multi-party-sig/verifharness/pbt"
	"github.com/taurusgroup/multi-party-sig/verifharness/proto"
	"github.com/taurusgroup/multi-party-sig/verifharness/ref"
	"github.com/taurusgroup/multi-party-sig/verifharness/sim"
	"github.com/taurusgroup/multi-party-sig/verifharness/tape"
	"pgregory.net/rapid"
)

func TestMain(m *testing.M)   { pbt.Main(m) }
func TestReplay(t *testing.T) { pbt.Replay(t) }
func TestCorpus(t *testing.T) { pbt.Corpus(t) }

var types = []string{"cmp.Config", "frost.Config", "frost.TaprootConfig", "doerner.ConfigReceiver", "doerner.ConfigSender", "ecdsa.PreSignature", "ecdsa.Signature", "protocol.Message"}

// ---- fixtures

type fixture struct {
	n, t  int
	cmp   *proto.Material
	frost *proto.Material
	tap   *proto.Material
	doer  *proto.Material
	pre   map[party.ID]*ecdsa.PreSignature
	sig   *ecdsa.Signature
	msgs  []*protocol.Message
}

var fixtures = map[string]*fixture{}

func getFixture(n, t int) *fixture {
	k := fmt.Sprintf("%d/%d", n, t)
	if f, ok := fixtures[k]; ok {
		return f
	}
	ids := fix.IDs("letters", n, 0)
	f := &fixture{n: n, t: t}
	must := func(m *proto.Material, err error) *proto.Material {
		if err != nil {
			panic(err)
		}
		return m
	}
	f.cmp = must(proto.Deal(proto.SchemeCMP, uint64(100+n*10+t), ids, t))
	f.frost = must(proto.Deal(proto.SchemeFrost, uint64(200+n*10+t), ids, t))
	f.tap = must(proto.Deal(proto.SchemeFrostTap, uint64(300+n*10+t), ids, t))
	f.doer = must(proto.Keygen(proto.SchemeDoerner, 400, fix.IDs("letters", 2, 0), 1, sim.FIFO))
	signers := f.cmp.IDs[:t+1]
	res, _, err := proto.RunHonest(f.cmp.SignSession(proto.CMPPresign, signers, nil, []byte("c15-pre")), 500, sim.FIFO)
	if err != nil {
		panic(err)
	}
	if f.pre, err = proto.PreSignatures(res); err != nil {
		panic(err)
	}
	// one signature and a set of real wire messages from a FROST keygen + sign
	res, net, err := proto.RunHonest(f.doer.SignSession(proto.DoernerSign, f.doer.IDs, []byte("c15 message"), []byte("c15-sig")), 501, sim.FIFO)
	if err != nil {
		panic(err)
	}
	f.sig = res[f.doer.IDs[0]].(*ecdsa.Signature)
	for _, p := range net.Parties {
		f.msgs = append(f.msgs, p.Sent...)
	}
	_, net, err = proto.RunHonest(f.frost.SignSession(proto.FrostSign, f.frost.IDs, []byte("c15 message"), []byte("c15-frost")), 502, sim.FIFO)
	if err != nil {
		panic(err)
	}
	for _, p := range net.Parties {
		f.msgs = append(f.msgs, p.Sent...)
	}
	fixtures[k] = f
	return f
}

// object is one stored value with its documented codec.
type object struct {
	typ    string
	encode func() ([]byte, error)
	// decode restores from bytes with the documented decoder and returns the object and its canonical form
	decode func(b []byte) (interface{}, error)
	empty  func() interface{}
}

func (f *fixture) object(typ string, who int) object {
	g := curve.Secp256k1{}
	switch typ {
	case "cmp.Config":
		id := f.cmp.IDs[who%len(f.cmp.IDs)]
		return object{typ: typ, encode: func() ([]byte, error) { return f.cmp.CMP[id].MarshalBinary() },
			decode: func(b []byte) (interface{}, error) {
				c := cmp.EmptyConfig(g)
				err := c.UnmarshalBinary(b)
				return c, err
			},
			empty: func() interface{} { return cmp.EmptyConfig(g) }}
	case "frost.Config":
		id := f.frost.IDs[who%len(f.frost.IDs)]
		return object{typ: typ, encode: func() ([]byte, error) { return cbor.Marshal(f.frost.Frost[id]) },
			decode: func(b []byte) (interface{}, error) {
				c := frost.EmptyConfig(g)
				err := cbor.Unmarshal(b, c)
				return c, err
			},
			empty: func() interface{} { return frost.EmptyConfig(g) }}
	case "frost.TaprootConfig":
		id := f.tap.IDs[who%len(f.tap.IDs)]
		return object{typ: typ, encode: func() ([]byte, error) { return cbor.Marshal(f.tap.FrostTap[id]) },
			decode: func(b []byte) (interface{}, error) {
				c := &frost.TaprootConfig{}
				err := cbor.Unmarshal(b, c)
				return c, err
			},
			empty: func() interface{} { return &frost.TaprootConfig{} }}
	case "doerner.ConfigReceiver":
		return object{typ: typ, encode: func() ([]byte, error) { return cbor.Marshal(f.doer.DoernerR) },
			decode: func(b []byte) (interface{}, error) {
				c := doerner.EmptyConfigReceiver(g)
				err := cbor.Unmarshal(b, c)
				return c, err
			}, empty: func() interface{} { return doerner.EmptyConfigReceiver(g) }}
	case "doerner.ConfigSender":
		return object{typ: typ, encode: func() ([]byte, error) { return cbor.Marshal(f.doer.DoernerS) },
			decode: func(b []byte) (interface{}, error) {
				c := doerner.EmptyConfigSender(g)
				err := cbor.Unmarshal(b, c)
				return c, err
			}, empty: func() interface{} { return doerner.EmptyConfigSender(g) }}
	case "ecdsa.PreSignature":
		signers := f.cmp.IDs[:f.t+1]
		id := signers[who%len(signers)]
		return object{typ: typ, encode: func() ([]byte, error) { return cbor.Marshal(f.pre[id]) },
			decode: func(b []byte) (interface{}, error) {
				c := ecdsa.EmptyPreSignature(g)
				err := cbor.Unmarshal(b, c)
				return c, err
			}, empty: func() interface{} { return ecdsa.EmptyPreSignature(g) }}
	case "ecdsa.Signature":
		return object{typ: typ, encode: func() ([]byte, error) { return cbor.Marshal(f.sig) },
			decode: func(b []byte) (interface{}, error) {
				c := ecdsa.EmptySignature(g)
				err := cbor.Unmarshal(b, &c)
				return &c, err
			}, empty: func() interface{} { c := ecdsa.EmptySignature(g); return &c }}
	case "protocol.Message":
		m := f.msgs[who%len(f.msgs)]
		return object{typ: typ, encode: func() ([]byte, error) { return m.MarshalBinary() },
			decode: func(b []byte) (interface{}, error) {
				c := &protocol.Message{}
				err := c.UnmarshalBinary(b)
				return c, err
			},
			empty: func() interface{} { return &protocol.Message{} }}
	}
	panic("unknown type " + typ)
}

// canon is a canonical comparison form of a restored object.
func canon(v interface{}) []byte {
	switch m := v.(type) {
	case *protocol.Message:
		return []byte(fmt.Sprintf("%x|%q|%q|%q|%d|%x|%v|%x|%v", m.SSID, m.From, m.To, m.Protocol, m.RoundNumber, m.Data, m.Broadcast, m.BroadcastVerification, m.Data == nil))
	case *doerner.ConfigReceiver:
		b, _ := proto.ResultBytes(m)
		return append(b, setupBytes(m.Setup)...)
	case *doerner.ConfigSender:
		b, _ := proto.ResultBytes(m)
		return append(b, setupBytes(m.Setup)...)
	}
	b, err := proto.ResultBytes(v)
	if err != nil {
		return []byte("unencodable: " + err.Error())
	}
	return b
}

// setupBytes exposes the (unexported) OT setup of a Doerner configuration for comparison.
func setupBytes(setup interface{}) []byte {
	return []byte(fmt.Sprintf("%v", conv.DeepString(setup)))
}

// ---- round trips

type rtCase struct {
	Type string
	N, T int
	Who  int
	Use  bool // use the restored object in a follow-up protocol run
	Seed uint64
}

func rtRun(c rtCase) *pbt.Fail {
	f := getFixture(c.N, c.T)
	o := f.object(c.Type, c.Who)
	b, err := o.encode()
	if err != nil {
		return pbt.Failf("encode-error:"+c.Type, err.Error())
	}
	var restored interface{}
	panicked, msg := ev.Guard(func() { restored, err = o.decode(b) })
	if panicked {
		return pbt.Failf("panic:decode:"+c.Type, msg)
	}
	if err != nil {
		return pbt.Failf("roundtrip-decode-error:"+c.Type, "the library cannot restore what it serialised: "+err.Error())
	}
	b2, _ := o.encode()
	orig, _ := o.decode(b2) // only used for types whose canonical form needs an object; compare with the source below
	_ = orig
	var want []byte
	switch c.Type {
	case "cmp.Config":
		want = canon(f.cmp.CMP[f.cmp.IDs[c.Who%len(f.cmp.IDs)]])
	case "frost.Config":
		want = canon(f.frost.Frost[f.frost.IDs[c.Who%len(f.frost.IDs)]])
	case "frost.TaprootConfig":
		want = canon(f.tap.FrostTap[f.tap.IDs[c.Who%len(f.tap.IDs)]])
	case "doerner.ConfigReceiver":
		want = canon(f.doer.DoernerR)
	case "doerner.ConfigSender":
		want = canon(f.doer.DoernerS)
	case "ecdsa.PreSignature":
		s := f.cmp.IDs[:f.t+1]
		want = canon(f.pre[s[c.Who%len(s)]])
	case "ecdsa.Signature":
		want = canon(f.sig)
	case "protocol.Message":
		want = canon(f.msgs[c.Who%len(f.msgs)])
	}
	if !bytes.Equal(canon(restored), want) {
		return pbt.Failf("roundtrip-differs:"+c.Type, "the restored object is not equivalent to the original")
	}
	if !c.Use {
		return nil
	}
	return useRestored(c, f, restored)
}

// useRestored runs a later protocol session in which one party uses restored material.
func useRestored(c rtCase, f *fixture, restored interface{}) *pbt.Fail {
	msg := []byte("c15 follow-up message")
	var s *proto.Session
	var pub ref.Pt
	var p string
	switch r := restored.(type) {
	case *cmp.Config:
		m := f.cmp.Clone()
		m.CMP[r.ID] = r
		signers := signersWith(m.IDs, r.ID, f.t+1)
		p, pub = proto.CMPSign, m.Pub
		s = m.SignSession(p, signers, msg, []byte("c15-use"))
	case *frost.Config:
		m := f.frost.Clone()
		m.Frost[r.ID] = r
		p, pub = proto.FrostSign, m.Pub
		s = m.SignSession(p, signersWith(m.IDs, r.ID, f.t+1), msg, []byte("c15-use"))
	case *frost.TaprootConfig:
		m := f.tap.Clone()
		m.FrostTap[r.ID] = r
		p, pub = proto.FrostSignTap, m.Pub
		s = m.SignSession(p, signersWith(m.IDs, r.ID, f.t+1), msg, []byte("c15-use"))
	case *doerner.ConfigReceiver:
		m := f.doer.Clone()
		m.DoernerR = r
		p, pub = proto.DoernerSign, m.Pub
		s = m.SignSession(p, m.IDs, msg, []byte("c15-use"))
	case *doerner.ConfigSender:
		m := f.doer.Clone()
		m.DoernerS = r
		p, pub = proto.DoernerSign, m.Pub
		s = m.SignSession(p, m.IDs, msg, []byte("c15-use"))
	case *ecdsa.PreSignature:
		m := f.cmp.Clone()
		signers := f.cmp.IDs[:f.t+1]
		id := signers[c.Who%len(signers)]
		p, pub = proto.CMPPresignOnline, m.Pub
		s = m.SignSession(p, signers, msg, []byte("c15-use"))
		s.Pre = map[party.ID]*ecdsa.PreSignature{}
		for k, v := range f.pre {
			s.Pre[k] = v
		}
		s.Pre[id] = r
	default:
		return nil
	}
	res, _, err := proto.RunHonest(s, c.Seed, sim.FIFO)
	if err != nil {
		return pbt.Failf("restored-unusable:"+c.Type, "a later session with the restored object fails: "+err.Error())
	}
	for id, r := range res {
		if err := proto.CheckSignature(p, r, pub, msg); err != nil {
			return pbt.Failf("restored-unusable:"+c.Type, fmt.Sprintf("party %q: %v", id, err))
		}
	}
	return nil
}

func signersWith(ids []party.ID, must party.ID, k int) []party.ID {
	out := []party.ID{must}
	for _, id := range ids {
		if len(out) < k && id != must {
			out = append(out, id)
		}
	}
	return out
}

var rtProp = pbt.Define(pbt.Prop[rtCase]{Kind: "roundtrip", Run: rtRun, Class: func(c rtCase) (string, bool) {
	return fmt.Sprintf("roundtrip|%s|n=%d|t=%d|use=%v", c.Type, c.N, c.T, c.Use), c.Use || c.Type != "protocol.Message"
}})

func TestRoundTrip(t *testing.T) {
	rapid.Check(t, func(rt *rapid.T) {
		c := rtCase{Type: rapid.SampledFrom(types).Draw(rt, "type")}
		c.N = rapid.IntRange(2, 4).Draw(rt, "n")
		c.T = rapid.IntRange(0, c.N-1).Draw(rt, "t")
		c.Who = rapid.IntRange(0, 40).Draw(rt, "who")
		c.Use = rapid.IntRange(0, 3).Draw(rt, "use") == 0
		if c.Type == "cmp.Config" || c.Type == "ecdsa.PreSignature" {
			c.Use = rapid.IntRange(0, 30).Draw(rt, "useCMP") == 0
			c.N, c.T = 2, 1
			if rapid.Bool().Draw(rt, "n3") {
				c.N = 3
			}
		}
		c.Seed = rapid.Uint64Range(1, 1<<30).Draw(rt, "seed")
		rtProp.One(rt, c)
	})
}

// ---- round trips of material for MANY parties ("for all n"): CBOR changes the representation of a map / array header
// at 24, 256 and 65536 entries; FROST material is cheap to deal for hundreds of parties.

type manyCase struct {
	Type string
	N, T int
	Who  int
}

var manyCache = map[string]*proto.Material{}

func manyRun(c manyCase) *pbt.Fail {
	scheme := proto.SchemeFrost
	if c.Type == "frost.TaprootConfig" {
		scheme = proto.SchemeFrostTap
	}
	k := fmt.Sprintf("%s/%d/%d", scheme, c.N, c.T)
	m := manyCache[k]
	if m == nil {
		var ids []party.ID
		for i := 0; i < c.N; i++ {
			ids = append(ids, party.ID(fmt.Sprintf("w%04d", i)))
		}
		var err error
		if m, err = proto.Deal(scheme, uint64(7000+c.N), ids, c.T); err != nil {
			return pbt.Failf("harness-error:deal", err.Error())
		}
		manyCache[k] = m
	}
	id := m.IDs[c.Who%len(m.IDs)]
	var src, dst interface{}
	if scheme == proto.SchemeFrost {
		src, dst = m.Frost[id], frost.EmptyConfig(curve.Secp256k1{})
	} else {
		src, dst = m.FrostTap[id], &frost.TaprootConfig{}
	}
	b, err := cbor.Marshal(src)
	if err != nil {
		return pbt.Failf("encode-error:"+c.Type, err.Error())
	}
	panicked, msg := ev.Guard(func() { err = cbor.Unmarshal(b, dst) })
	if panicked {
		return pbt.Failf("panic:decode:"+c.Type, msg)
	}
	if err != nil {
		return pbt.Failf("roundtrip-decode-error:"+c.Type, fmt.Sprintf("the library cannot restore what it serialised (n=%d): %v", c.N, err))
	}
	if !bytes.Equal(canon(dst), canon(src)) {
		return pbt.Failf("roundtrip-differs:"+c.Type, fmt.Sprintf("the restored object is not equivalent to the original (n=%d)", c.N))
	}
	return nil
}

var manyProp = pbt.Define(pbt.Prop[manyCase]{Kind: "roundtrip-many", Run: manyRun, Class: func(c manyCase) (string, bool) {
	return fmt.Sprintf("roundtrip-many|%s|n=%d|t=%d", c.Type, c.N, c.T), true
}})

func TestRoundTripMany(t *testing.T) {
	rec := ev.Get()
	i := 0
	for _, typ := range []string{"frost.Config", "frost.TaprootConfig"} {
		for _, n := range []int{5, 23, 24, 25, 26, 40, 257} {
			for _, th := range []int{1, n - 1} {
				if n > 40 && (th > 1 || !rec.Thorough()) {
					continue // dealing for hundreds of parties is quadratic; thorough tier only
				}
				i++
				if !rec.Mine(i) {
					continue
				}
				manyProp.One(t, manyCase{Type: typ, N: n, T: th, Who: i})
			}
		}
	}
}

// TestWireRoundTrip runs whole sessions in which every message crosses the documented wire codec.
func TestWireRoundTrip(t *testing.T) {
	rapid.Check(t, func(rt *rapid.T) {
		c := wireCase{Proto: rapid.SampledFrom([]string{proto.FrostKeygen, proto.FrostSign, proto.FrostSignTap, proto.DoernerKeygen, proto.DoernerSign, proto.XOR}).Draw(rt, "proto"),
			N: rapid.IntRange(2, 4).Draw(rt, "n"), Seed: rapid.Uint64Range(1, 1<<30).Draw(rt, "seed")}
		c.T = rapid.IntRange(0, c.N-1).Draw(rt, "t")
		c.Reuse = rapid.Bool().Draw(rt, "reuse")
		wireProp.One(rt, c)
	})
}

type wireCase struct {
	Proto string
	N, T  int
	Seed  uint64
	// Reuse: every party decodes all incoming messages into ONE Message object (a receive buffer), as a receive loop
	// does; the handler is given a deep copy of the decoded value
	Reuse bool
}

var wireProp = pbt.Define(pbt.Prop[wireCase]{Kind: "wire-roundtrip", Run: wireRun, Class: func(c wireCase) (string, bool) {
	return fmt.Sprintf("wire|%s|n=%d|t=%d|reuse=%v", c.Proto, c.N, c.T, c.Reuse), true
}})

func wireRun(c wireCase) *pbt.Fail {
	f := getFixture(3, 1)
	ids := fix.IDs("letters", c.N, 0)
	var s *proto.Session
	msg := []byte("c15 wire")
	switch c.Proto {
	case proto.FrostKeygen, proto.XOR:
		s = &proto.Session{Proto: c.Proto, SessionID: []byte("w"), IDs: fix.SortedIDs(ids), T: c.T}
	case proto.DoernerKeygen:
		s = &proto.Session{Proto: c.Proto, SessionID: []byte("w"), IDs: ids[:2], T: 1}
	case proto.DoernerSign:
		s = f.doer.SignSession(proto.DoernerSign, f.doer.IDs, msg, []byte("w"))
	case proto.FrostSign:
		s = f.frost.SignSession(proto.FrostSign, f.frost.IDs[:f.t+1], msg, []byte("w"))
	case proto.FrostSignTap:
		s = f.tap.SignSession(proto.FrostSignTap, f.tap.IDs[:f.t+1], msg, []byte("w"))
	}
	mux := tape.Install(c.Seed)
	defer mux.Uninstall()
	n := sim.New(mux)
	var werr error
	mismatch := ""
	bufs := map[string]*protocol.Message{}
	n.Route = func(from *sim.Party, m *sim.Msg, to *sim.Party) *sim.Msg {
		b, err := m.MarshalBinary()
		if err != nil {
			werr = err
			return m
		}
		out := &protocol.Message{}
		if c.Reuse {
			if bufs[to.Name] == nil {
				bufs[to.Name] = &protocol.Message{}
			}
			out = bufs[to.Name]
		}
		if err := out.UnmarshalBinary(b); err != nil {
			werr = err
			return m
		}
		cp := *out
		cp.SSID = append([]byte(nil), out.SSID...)
		cp.Data = append([]byte(nil), out.Data...)
		cp.BroadcastVerification = append([]byte(nil), out.BroadcastVerification...)
		if out.BroadcastVerification == nil {
			cp.BroadcastVerification = nil
		}
		if cp.From != m.From || cp.To != m.To || cp.Protocol != m.Protocol || cp.RoundNumber != m.RoundNumber || cp.Broadcast != m.Broadcast ||
			!bytes.Equal(cp.SSID, m.SSID) || !bytes.Equal(cp.Data, m.Data) || !bytes.Equal(cp.BroadcastVerification, m.BroadcastVerification) {
			if mismatch == "" {
				mismatch = fmt.Sprintf("sent {from %q to %q round %d broadcast %v, %d bytes, bv %x}, restored {from %q to %q round %d broadcast %v, %d bytes, bv %x}",
					m.From, m.To, m.RoundNumber, m.Broadcast, len(m.Data), m.BroadcastVerification, cp.From, cp.To, cp.RoundNumber, cp.Broadcast, len(cp.Data), cp.BroadcastVerification)
			}
		}
		return &cp
	}
	if err := s.AddAll(n); err != nil {
		return pbt.Failf("wire-setup", err.Error())
	}
	if err := n.Run(sim.FIFO, 10000); err != nil {
		return pbt.Failf("wire-run", err.Error())
	}
	if werr != nil {
		return pbt.Failf("wire-codec-error", werr.Error())
	}
	if mismatch != "" {
		return pbt.Failf("wire-roundtrip-mismatch:"+c.Proto, "a message restored from its encoding differs from the one sent: "+mismatch)
	}
	for _, p := range n.Parties {
		if o := p.Outcome(); !o.Finished {
			return pbt.Failf("wire-incomplete:"+c.Proto, fmt.Sprintf("party %q does not complete when messages cross the wire codec: %v", p.Name, o.Err))
		}
	}
	return nil
}

// ---- corrupted material

type corruptCase struct {
	Type  string
	Who   int
	Mode  string // tree / bytes
	Pick  int    // which node
	Kind  string // corruption kind
	Arg   int
	Bytes string // for Mode == bytes: replacement bytes entirely
}

var treeKinds = []string{"null", "absent", "empty-bytes", "zero-bytes", "truncate", "extend", "type-int", "type-text", "type-array", "type-map", "int-minus1", "int-n", "int-2^32", "int-max",
	"dup-entry", "drop-entry", "identity-point", "flip-low-bit", "drop-leading-byte", "copy-sibling", "empty-map", "empty-array"}

func corruptTree(root *mut.Node, pick int, kind string, arg int) (path string, ok bool) {
	refs := mut.Walk(root)
	r := refs[pick%len(refs)]
	n := r.Node
	path = r.Path
	switch kind {
	case "null":
		r.Replace(&mut.Node{K: mut.Null})
	case "absent", "drop-entry":
		return path, r.Delete()
	case "empty-bytes":
		if n.K != mut.Bytes {
			return path, false
		}
		r.Replace(&mut.Node{K: mut.Bytes})
	case "zero-bytes":
		if n.K != mut.Bytes || n.Inner != nil || len(n.B) == 0 {
			return path, false
		}
		r.Replace(&mut.Node{K: mut.Bytes, B: make([]byte, len(n.B))})
	case "truncate":
		if n.K != mut.Bytes || len(n.B) < 2 {
			return path, false
		}
		k := 1 + arg%3
		if k >= len(n.B) {
			k = 1
		}
		r.Replace(&mut.Node{K: mut.Bytes, B: n.B[:len(n.B)-k]})
	case "extend":
		if n.K != mut.Bytes {
			return path, false
		}
		r.Replace(&mut.Node{K: mut.Bytes, B: append(append([]byte{}, n.B...), byte(arg))})
	case "type-int":
		r.Replace(&mut.Node{K: mut.Uint, U: uint64(arg)})
	case "type-text":
		r.Replace(&mut.Node{K: mut.Text, S: "x"})
	case "type-array":
		r.Replace(&mut.Node{K: mut.Array, A: []*mut.Node{n.Clone()}})
	case "type-map":
		r.Replace(&mut.Node{K: mut.Map, MK: []*mut.Node{{K: mut.Text, S: "k"}}, MV: []*mut.Node{n.Clone()}})
	case "empty-map":
		r.Replace(&mut.Node{K: mut.Map})
	case "empty-array":
		r.Replace(&mut.Node{K: mut.Array})
	case "int-minus1", "int-n", "int-2^32", "int-max":
		if n.K != mut.Uint && n.K != mut.Nint {
			return path, false
		}
		switch kind {
		case "int-minus1":
			r.Replace(&mut.Node{K: mut.Nint, U: 0})
		case "int-n":
			r.Replace(&mut.Node{K: mut.Uint, U: uint64(2 + arg%3)})
		case "int-2^32":
			r.Replace(&mut.Node{K: mut.Uint, U: 1 << 32})
		default:
			r.Replace(&mut.Node{K: mut.Uint, U: ^uint64(0)})
		}
	case "dup-entry":
		p := r.Parent
		if p == nil || r.Index < 0 {
			return path, false
		}
		if p.K == mut.Map {
			p.MK = append(p.MK, p.MK[r.Index].Clone())
			p.MV = append(p.MV, p.MV[r.Index].Clone())
		} else if p.K == mut.Array {
			p.A = append(p.A, p.A[r.Index].Clone())
		} else {
			return path, false
		}
	case "identity-point":
		if n.K != mut.Bytes || len(n.B) != 33 {
			return path, false
		}
		id := make([]byte, 33)
		id[0] = 2
		r.Replace(&mut.Node{K: mut.Bytes, B: id})
	case "flip-low-bit":
		if n.K != mut.Bytes || n.Inner != nil || len(n.B) == 0 {
			return path, false
		}
		b := append([]byte{}, n.B...)
		b[len(b)-1] ^= 1
		r.Replace(&mut.Node{K: mut.Bytes, B: b})
	case "drop-leading-byte":
		if n.K != mut.Bytes || n.Inner != nil || len(n.B) < 2 {
			return path, false
		}
		r.Replace(&mut.Node{K: mut.Bytes, B: n.B[1:]})
	case "copy-sibling":
		p := r.Parent
		if p == nil || p.K != mut.Map || len(p.MV) < 2 {
			return path, false
		}
		src := p.MV[(r.Index+1+arg)%len(p.MV)]
		if src == n {
			return path, false
		}
		r.Replace(src.Clone())
	}
	return path, true
}

var lastPath string

func corruptRun(c corruptCase) *pbt.Fail {
	lastPath = ""
	f := getFixture(3, 1)
	o := f.object(c.Type, c.Who)
	good, err := o.encode()
	if err != nil {
		return pbt.Failf("encode-error:"+c.Type, err.Error())
	}
	var data []byte
	if c.Mode == "bytes" {
		data = conv.UnHex(c.Bytes)
		if c.Kind == "flip" {
			data = append([]byte{}, good...)
			data[c.Pick%len(data)] ^= 1 << uint(c.Arg%8)
		} else if c.Kind == "cut" {
			data = good[:c.Pick%len(good)]
		}
	} else {
		root, err := mut.Decode(good)
		if err != nil {
			return pbt.Failf("harness-cbor", err.Error())
		}
		path, ok := corruptTree(root, c.Pick, c.Kind, c.Arg)
		lastPath = mut.Generic(path)
		if !ok {
			return nil
		}
		data = mut.Encode(root)
	}
	if bytes.Equal(data, good) {
		return nil
	}
	var restored interface{}
	panicked, msg := ev.Guard(func() { restored, err = o.decode(data) })
	if panicked {
		return pbt.Failf("panic:decode:"+c.Type+":"+ev.PanicSite(msg), fmt.Sprintf("restoring %s from corrupted bytes panics (%s at %s):\n%s", c.Type, c.Kind, lastPath, msg))
	}
	if err != nil {
		return nil // refused: fine
	}
	// accepted: must not be silently empty, and must satisfy the validity rules of its type
	if c.Type != "protocol.Message" && conv.DeepString(restored) == conv.DeepString(o.empty()) {
		return pbt.Failf("silently-empty:"+c.Type, fmt.Sprintf("restoring from corrupted bytes (%s at %s) returned no error and an empty object", c.Kind, lastPath))
	}
	if c.Type == "protocol.Message" {
		// nil error requires that the bytes really are a decodable message
		var mirror struct {
			SSID                  []byte
			From, To              string
			Protocol              string
			RoundNumber           uint16
			Data                  []byte
			Broadcast             bool
			BroadcastVerification []byte
		}
		if cbor.Unmarshal(data, &mirror) != nil {
			return pbt.Failf("undecodable-accepted:"+c.Type, "UnmarshalBinary returned nil for bytes that do not decode as a message")
		}
		return nil
	}
	if why := invalid(restored); why != "" {
		return pbt.Failf("accepts-invalid:"+c.Type+":"+why, fmt.Sprintf("restoring from corrupted bytes (%s at %s) returned no error and an object that breaks a validity rule: %s", c.Kind, lastPath, why))
	}
	return nil
}

func okPoint(p curve.Point) bool   { return p != nil && !p.IsIdentity() }
func okScalar(s curve.Scalar) bool { return s != nil && !s.IsZero() }

func okModulus(n *big.Int) bool { return n != nil && n.BitLen() == 2048 && n.Bit(0) == 1 }

// invalid returns the broken validity rule of a restored object ("" if none).
func invalid(v interface{}) (why string) {
	defer func() {
		if recover() != nil {
			why = "object-panics-on-inspection"
		}
	}()
	switch c := v.(type) {
	case *cmp.Config:
		if !okScalar(c.ECDSA) || !okScalar(c.ElGamal) {
			return "zero-secret"
		}
		if c.Paillier == nil || c.Paillier.P() == nil || c.Paillier.Q() == nil || c.Paillier.P().Big().BitLen() != 1024 || c.Paillier.Q().Big().BitLen() != 1024 {
			return "paillier-secret"
		}
		if c.Threshold < 0 || c.Threshold >= len(c.Public) {
			return "threshold"
		}
		if _, ok := c.Public[c.ID]; !ok {
			return "self-missing"
		}
		for id, p := range c.Public {
			if p == nil || !okPoint(p.ECDSA) || !okPoint(p.ElGamal) {
				return "identity-point"
			}
			if p.Paillier == nil || !okModulus(p.Paillier.N().Big()) || p.Pedersen == nil || !okModulus(p.Pedersen.N().Big()) {
				return "modulus"
			}
			s, t := p.Pedersen.S(), p.Pedersen.T()
			if s == nil || t == nil {
				return "pedersen-nil:" + map[bool]string{true: "self", false: "other"}[id == c.ID]
			}
			N := p.Pedersen.N().Big()
			one := big.NewInt(1)
			for _, x := range []*big.Int{s.Big(), t.Big()} {
				if x.Sign() <= 0 || x.Cmp(N) >= 0 || new(big.Int).GCD(nil, nil, x, N).Cmp(one) != 0 {
					return "pedersen-range:" + map[bool]string{true: "self", false: "other"}[id == c.ID]
				}
			}
			if s.Big().Cmp(t.Big()) == 0 {
				return "pedersen-s=t:" + map[bool]string{true: "self", false: "other"}[id == c.ID]
			}
		}
	case *frost.Config:
		if !okScalar(c.PrivateShare) {
			return "zero-secret"
		}
		if !okPoint(c.PublicKey) {
			return "identity-point"
		}
		if c.VerificationShares == nil || len(c.VerificationShares.Points) == 0 {
			return "shares-missing"
		}
		for _, p := range c.VerificationShares.Points {
			if !okPoint(p) {
				return "identity-point"
			}
		}
		if _, ok := c.VerificationShares.Points[c.ID]; !ok {
			return "self-missing"
		}
		if c.Threshold < 0 || c.Threshold >= len(c.VerificationShares.Points) {
			return "threshold"
		}
	case *frost.TaprootConfig:
		if c.PrivateShare == nil || c.PrivateShare.IsZero() {
			return "zero-secret"
		}
		if len(c.PublicKey) != 32 {
			return "public-key-length"
		}
		if len(c.VerificationShares) == 0 {
			return "shares-missing"
		}
		for _, p := range c.VerificationShares {
			if p == nil || p.IsIdentity() {
				return "identity-point"
			}
		}
		if _, ok := c.VerificationShares[c.ID]; !ok {
			return "self-missing"
		}
		if c.Threshold < 0 || c.Threshold >= len(c.VerificationShares) {
			return "threshold"
		}
	case *doerner.ConfigReceiver:
		if !okScalar(c.SecretShare) {
			return "zero-secret"
		}
		if !okPoint(c.Public) {
			return "identity-point"
		}
	case *doerner.ConfigSender:
		if !okScalar(c.SecretShare) {
			return "zero-secret"
		}
		if !okPoint(c.Public) {
			return "identity-point"
		}
	case *ecdsa.PreSignature:
		if !okScalar(c.KShare) || !okScalar(c.ChiShare) {
			return "zero-secret"
		}
		if !okPoint(c.R) || c.RBar == nil || c.S == nil {
			return "identity-point"
		}
		if len(c.RBar.Points) != len(c.S.Points) || len(c.RBar.Points) == 0 {
			return "signer-tables"
		}
		for id, p := range c.RBar.Points {
			if !okPoint(p) || !okPoint(c.S.Points[id]) {
				return "identity-point"
			}
		}
	}
	return ""
}

var corruptProp = pbt.Define(pbt.Prop[corruptCase]{Kind: "corrupt", Run: corruptRun, Class: func(c corruptCase) (string, bool) {
	return fmt.Sprintf("corrupt|%s|%s|%s|%s", c.Type, c.Mode, c.Kind, lastPath), true
}})

func TestCorrupt(t *testing.T) {
	rapid.Check(t, func(rt *rapid.T) {
		c := corruptCase{Type: rapid.SampledFrom(types).Draw(rt, "type"), Who: rapid.IntRange(0, 40).Draw(rt, "who")}
		c.Mode = rapid.SampledFrom([]string{"tree", "tree", "tree", "bytes"}).Draw(rt, "mode")
		c.Pick = rapid.IntRange(0, 4000).Draw(rt, "pick")
		c.Arg = rapid.IntRange(0, 255).Draw(rt, "arg")
		if c.Mode == "tree" {
			c.Kind = rapid.SampledFrom(treeKinds).Draw(rt, "kind")
		} else {
			c.Kind = rapid.SampledFrom([]string{"flip", "cut", "replace"}).Draw(rt, "kind")
			if c.Kind == "replace" {
				c.Bytes = conv.Hex(rapid.SampledFrom([][]byte{{}, {0xf6}, {0xa0}, {0x80}, {0x40}, {0x00}, {0xff}, {0xa1, 0x61, 0x61, 0xf6}, {0x9f}, {0xbf}, {0x5f}}).Draw(rt, "bytes"))
				if rapid.Bool().Draw(rt, "randBytes") {
					c.Bytes = conv.Hex(rapid.SliceOfN(rapid.Byte(), 0, 64).Draw(rt, "rbytes"))
				}
			}
		}
		corruptProp.One(rt, c)
	})
}

var _ = strings.Contains
