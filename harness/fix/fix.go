// Package fix provides fixtures: the safe-prime pool, identifier families and a trusted dealer that
// builds key material for any (n, t, ids) in milliseconds, with the polynomial arithmetic done in ref.
package fix

import (
	"encoding/json"
	"fmt"
	"io"
	"math/big"
	"os"
	"path/filepath"
	"sort"
	"strings"
	"sync"
	"unicode/utf8"

	"github.com/cronokirby/saferith"
	"github.com/taurusgroup/multi-party-sig/internal/types"
	"github.com/taurusgroup/multi-party-sig/pkg/math/curve"
	"github.com/taurusgroup/multi-party-sig/pkg/math/sample"
	"github.com/taurusgroup/multi-party-sig/pkg/paillier"
	"github.com/taurusgroup/multi-party-sig/pkg/party"
	"github.com/taurusgroup/multi-party-sig/pkg/pedersen"
	"github.com/taurusgroup/multi-party-sig/protocols/cmp"
	cmpconfig "github.com/taurusgroup/multi-party-sig/protocols/cmp/config"
	"github.com/taurusgroup/multi-party-sig/protocols/frost"
	"github.com/taurusgroup/multi-party-sig/verifharness/conv"
	"github.com/taurusgroup/multi-party-sig/verifharness/ref"
	"github.com/taurusgroup/multi-party-sig/verifharness/tape"
)

var (
	primesOnce sync.Once
	primes     [][2]*big.Int
)

func root() string {
	if r := os.Getenv("VERIF_ROOT"); r != "" {
		return r
	}
	return "/verif"
}

// Primes loads and re-validates the pool of 1024-bit safe Blum primes.
func Primes() [][2]*big.Int {
	primesOnce.Do(func() {
		data, err := os.ReadFile(filepath.Join(root(), "fixtures", "primes.json"))
		if err != nil {
			panic(err)
		}
		var raw [][2]string
		if err := json.Unmarshal(data, &raw); err != nil {
			panic(err)
		}
		for _, pr := range raw {
			var pair [2]*big.Int
			for i := 0; i < 2; i++ {
				x, ok := new(big.Int).SetString(pr[i], 16)
				if !ok {
					panic("bad prime")
				}
				half := new(big.Int).Rsh(x, 1)
				if x.BitLen() != 1024 || x.Bit(0) != 1 || x.Bit(1) != 1 || !x.ProbablyPrime(8) || !half.ProbablyPrime(8) {
					panic("fixtures/primes.json: not a 1024-bit safe Blum prime")
				}
				pair[i] = x
			}
			primes = append(primes, pair)
		}
	})
	return primes
}

func nat(x *big.Int) *saferith.Nat { return new(saferith.Nat).SetBig(x, 1024) }

// PrimePair returns pool entry i (mod pool size) as saferith naturals.
func PrimePair(i int) (*saferith.Nat, *saferith.Nat) {
	ps := Primes()
	p := ps[((i%len(ps))+len(ps))%len(ps)]
	return nat(p[0]), nat(p[1])
}

// InstallPrimeSource makes sample.Paillier (hook H1) hand out pool entries start, start+1, ...
func InstallPrimeSource(start int) (uninstall func()) {
	var mu sync.Mutex
	i := start
	sample.SetPrimeSource(func() (*saferith.Nat, *saferith.Nat, bool) {
		mu.Lock()
		defer mu.Unlock()
		p, q := PrimePair(i)
		i++
		return p, q, true
	})
	return func() { sample.SetPrimeSource(nil) }
}

// InstallPrimeSourceByParty hands out pool entries as a function of the party that is currently executing
// (as told by the tape multiplexer) and of how many pairs that party already took, so that the assignment does
// not depend on the order in which parties are constructed. Twins "x#a"/"x#b" of one party get the same primes.
func InstallPrimeSourceByParty(mux *tape.Mux, base int) (uninstall func()) {
	var mu sync.Mutex
	taken := map[string]int{}
	sample.SetPrimeSource(func() (*saferith.Nat, *saferith.Nat, bool) {
		mu.Lock()
		defer mu.Unlock()
		name := mux.Current()
		who := name
		if i := strings.Index(who, "#"); i >= 0 {
			who = who[:i]
		}
		h := 0
		for _, c := range []byte(who) {
			h = (h*131 + int(c)) % 9973
		}
		k := taken[name]
		taken[name]++
		p, q := PrimePair(base + h + 7*k)
		return p, q, true
	})
	return func() { sample.SetPrimeSource(nil) }
}

// ---- identifier families (all respect party.ID's documented precondition: 1..32 bytes, distinct
// non-zero scalar images)

// Families of identifiers. "rawbytes" and "nearq" contain identifiers that are not valid UTF-8 (the doc
// comment of party.ID describes identifiers as 32-byte slices); the others are valid UTF-8.
var Families = []string{"letters", "prefix", "concat", "near1", "nonascii", "long", "mixed", "padding", "rawbytes", "nearq"}

// UTF8Families are the families that survive the library's CBOR text-string encoding of identifiers.
var UTF8Families = []string{"letters", "prefix", "concat", "near1", "nonascii", "long", "mixed", "padding"}

func famPool(f string) []party.ID {
	switch f {
	case "letters":
		return []party.ID{"a", "b", "c", "d", "e", "f", "g", "h"}
	case "prefix":
		return []party.ID{"a", "ab", "abc", "abcd", "b", "ba", "bab", "abd"}
	case "concat":
		// families whose plain concatenations coincide for different splits
		return []party.ID{"a", "b", "c", "de", "cd", "e", "ab", "bc"}
	case "near1":
		var out []party.ID
		for i := 1; i <= 8; i++ {
			b := make([]byte, 32)
			b[31] = byte(i)
			out = append(out, party.ID(b))
		}
		return out
	case "nearq":
		var out []party.ID
		for i := 1; i <= 8; i++ {
			x := new(big.Int).Sub(ref.N, big.NewInt(int64(i)))
			out = append(out, party.ID(ref.Bytes32(x)))
		}
		return out
	case "nonascii":
		return []party.ID{"\u00e9", "\u00fc\u00df", "\U0001F600", "\u4e2d\u6587", "\u00e9a", "a\u00e9", "\u0416", "\u05d0\u05d1"}
	case "rawbytes":
		return []party.ID{"\xff", "\xfe\x01", "\x80\x00", "\xc3", "\xff\xff\x01", "\xf0\x9f", "\x01\xff", "\xed\xa0\x80"}
	case "padding":
		// identifiers that differ only in trailing NUL bytes: sets built from them coincide under any framing that
		// pads or strips identifiers instead of length-prefixing them (their scalar images are all distinct)
		return []party.ID{"a", "b", "a\x00", "b\x00", "a\x00\x00", "b\x00\x00", "a\x00\x00\x00", "b\x00\x00\x00"}
	case "long":
		var out []party.ID
		for i := 0; i < 8; i++ {
			b := make([]byte, 32)
			for j := range b {
				b[j] = byte(0x41 + (i*7+j)%26)
			}
			b[0] = byte(0x30 + i) // below q's leading 0xFF byte, so the image is the value itself
			out = append(out, party.ID(b))
		}
		return out
	}
	return nil
}

// AllUTF8 reports whether every identifier is valid UTF-8.
func AllUTF8(ids []party.ID) bool {
	for _, id := range ids {
		if !utf8.ValidString(string(id)) {
			return false
		}
	}
	return true
}

// IDs returns n identifiers of the given family, chosen by the permutation seed pick.
func IDs(family string, n int, pick int) []party.ID {
	var pool []party.ID
	if family == "mixed" {
		for _, f := range []string{"letters", "near1", "nonascii", "long", "prefix", "concat"} {
			pool = append(pool, famPool(f)[:3]...)
		}
	} else {
		pool = famPool(family)
	}
	// deterministic selection: rotate by pick, then take every stride-th
	out := make([]party.ID, 0, n)
	seen := map[string]bool{}
	for i := 0; len(out) < n && i < 4*len(pool); i++ {
		id := pool[(pick+i*(1+pick%3))%len(pool)]
		img := ref.IDScalar(string(id)).String()
		if seen[img] || ref.IDScalar(string(id)).Sign() == 0 {
			continue
		}
		seen[img] = true
		out = append(out, id)
	}
	if len(out) < n {
		for _, id := range pool {
			img := ref.IDScalar(string(id)).String()
			if !seen[img] && len(out) < n {
				seen[img] = true
				out = append(out, id)
			}
		}
	}
	return out
}

func SortedIDs(ids []party.ID) []party.ID {
	out := append([]party.ID{}, ids...)
	sort.Slice(out, func(i, j int) bool { return out[i] < out[j] })
	return out
}

// ---- dealer

// Dealt is the ground truth of a dealt key.
type Dealt struct {
	IDs      []party.ID
	T        int
	Secret   *big.Int
	Coef     []*big.Int
	Shares   map[party.ID]*big.Int
	Public   ref.Pt
	ChainKey []byte
}

func randScalar(r io.Reader) *big.Int {
	b := make([]byte, 40)
	_, _ = io.ReadFull(r, b)
	x := new(big.Int).SetBytes(b)
	x.Mod(x, new(big.Int).Sub(ref.N, big.NewInt(1)))
	return x.Add(x, big.NewInt(1))
}

// Deal shares a fresh secret with a degree-t polynomial among ids.
func Deal(seed uint64, ids []party.ID, t int) *Dealt {
	r := tape.NewStream(seed, "dealer", 0)
	d := &Dealt{IDs: SortedIDs(ids), T: t, Shares: map[party.ID]*big.Int{}}
	for i := 0; i <= t; i++ {
		d.Coef = append(d.Coef, randScalar(r))
	}
	d.Secret = d.Coef[0]
	for _, id := range d.IDs {
		d.Shares[id] = ref.EvalPoly(d.Coef, ref.IDScalar(string(id)))
	}
	d.Public = ref.BaseMul(d.Secret)
	d.ChainKey = make([]byte, 32)
	_, _ = io.ReadFull(r, d.ChainKey)
	return d
}

// CMP builds cmp configs for the dealt key. primeOffset selects the Paillier primes from the pool.
func (d *Dealt) CMP(seed uint64, primeOffset int) map[party.ID]*cmp.Config {
	g := curve.Secp256k1{}
	r := tape.NewStream(seed, "dealer-cmp", 0)
	rid, _ := types.NewRID(r)
	public := map[party.ID]*cmpconfig.Public{}
	secrets := map[party.ID]*paillier.SecretKey{}
	elg := map[party.ID]curve.Scalar{}
	for i, id := range d.IDs {
		p, q := PrimePair(primeOffset + i)
		sk := paillier.NewSecretKeyFromPrimes(p, q)
		s, t, _ := sample.Pedersen(r, sk.Phi(), sk.N())
		e := sample.Scalar(r, g)
		secrets[id], elg[id] = sk, e
		public[id] = &cmpconfig.Public{
			ECDSA:    conv.Point(ref.BaseMul(d.Shares[id])),
			ElGamal:  e.ActOnBase(),
			Paillier: sk.PublicKey,
			Pedersen: pedersen.New(sk.PublicKey.Modulus(), s, t),
		}
	}
	out := map[party.ID]*cmp.Config{}
	for _, id := range d.IDs {
		pub := map[party.ID]*cmpconfig.Public{}
		for k, v := range public {
			pk, ped := v.Paillier, v.Pedersen
			if k != id {
				// other parties only know N (no factorisation, hence no CRT shortcuts), as after a real keygen
				pk = paillier.NewPublicKey(v.Paillier.N())
				ped = pedersen.New(pk.Modulus(), v.Pedersen.S(), v.Pedersen.T())
			}
			pub[k] = &cmpconfig.Public{ECDSA: conv.Point(conv.Ref(v.ECDSA)), ElGamal: conv.Point(conv.Ref(v.ElGamal)), Paillier: pk, Pedersen: ped}
		}
		out[id] = &cmp.Config{
			Group:     g,
			ID:        id,
			Threshold: d.T,
			ECDSA:     conv.Scalar(d.Shares[id]),
			ElGamal:   g.NewScalar().Set(elg[id]),
			Paillier:  secrets[id],
			RID:       rid.Copy(),
			ChainKey:  types.RID(append([]byte{}, d.ChainKey...)),
			Public:    pub,
		}
	}
	return out
}

// Frost builds generic FROST configs for the dealt key.
func (d *Dealt) Frost() map[party.ID]*frost.Config {
	out := map[party.ID]*frost.Config{}
	for _, id := range d.IDs {
		vs := map[party.ID]curve.Point{}
		for _, j := range d.IDs {
			vs[j] = conv.Point(ref.BaseMul(d.Shares[j]))
		}
		out[id] = &frost.Config{
			ID:                 id,
			Threshold:          d.T,
			PrivateShare:       conv.Scalar(d.Shares[id]),
			PublicKey:          conv.Point(d.Public),
			ChainKey:           append([]byte{}, d.ChainKey...),
			VerificationShares: party.NewPointMap(vs),
		}
	}
	return out
}

// FrostTaproot builds Taproot configs: the sharing is negated when the public key has odd Y.
func (d *Dealt) FrostTaproot() (map[party.ID]*frost.TaprootConfig, *big.Int) {
	secret := new(big.Int).Set(d.Secret)
	neg := !d.Public.EvenY()
	if neg {
		secret.Sub(ref.N, secret)
	}
	out := map[party.ID]*frost.TaprootConfig{}
	share := func(id party.ID) *big.Int {
		s := new(big.Int).Set(d.Shares[id])
		if neg {
			s.Sub(ref.N, s).Mod(s, ref.N)
		}
		return s
	}
	for _, id := range d.IDs {
		vs := map[party.ID]*curve.Secp256k1Point{}
		for _, j := range d.IDs {
			vs[j] = conv.Point(ref.BaseMul(share(j))).(*curve.Secp256k1Point)
		}
		out[id] = &frost.TaprootConfig{
			ID:                 id,
			Threshold:          d.T,
			PrivateShare:       conv.Scalar(share(id)).(*curve.Secp256k1Scalar),
			PublicKey:          ref.BaseMul(secret).XBytes(),
			ChainKey:           append([]byte{}, d.ChainKey...),
			VerificationShares: vs,
		}
	}
	return out, secret
}

func (d *Dealt) String() string { return fmt.Sprintf("dealt n=%d t=%d", len(d.IDs), d.T) }
