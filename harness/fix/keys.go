package fix

import (
	"sync"

	"github.com/cronokirby/saferith"
	"github.com/taurusgroup/multi-party-sig/pkg/math/sample"
	"github.com/taurusgroup/multi-party-sig/pkg/paillier"
	"github.com/taurusgroup/multi-party-sig/pkg/pedersen"
	"github.com/taurusgroup/multi-party-sig/verifharness/ref"
	"github.com/taurusgroup/multi-party-sig/verifharness/tape"
)

// Key bundles one Paillier key pair of the pool in all the forms checks need.
type Key struct {
	SK    *paillier.SecretKey
	Fast  *paillier.PublicKey // knows the factorisation (CRT paths)
	Plain *paillier.PublicKey // only N, as a remote party holds it
	Ref   *ref.Paillier
	Ped   *pedersen.Parameters // Pedersen parameters over this key's modulus (plain modulus)
	// PedLambda is the secret exponent with s = t^lambda.
	PedLambda *saferith.Nat
}

var (
	keyMu sync.Mutex
	keys  = map[int]*Key{}
)

// PaillierKey returns (cached) key i of the pool.
func PaillierKey(i int) *Key {
	keyMu.Lock()
	defer keyMu.Unlock()
	n := len(Primes())
	i = ((i % n) + n) % n
	if k, ok := keys[i]; ok {
		return k
	}
	p, q := PrimePair(i)
	sk := paillier.NewSecretKeyFromPrimes(p, q)
	k := &Key{SK: sk, Fast: sk.PublicKey, Plain: paillier.NewPublicKey(sk.PublicKey.N()), Ref: ref.NewPaillier(p.Big(), q.Big())}
	s, t, lambda := sample.Pedersen(tape.NewStream(uint64(i), "ped", 0), sk.Phi(), sk.N())
	k.Ped = pedersen.New(k.Plain.Modulus(), s, t)
	k.PedLambda = lambda
	keys[i] = k
	return k
}
