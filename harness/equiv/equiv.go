// Package equiv runs one equivocating participant against the real handlers: two individually valid twins of the
// cheater share their randomness up to the round in which they fork, and the honest parties are partitioned into the
// audiences of the two twins. Used by C06 (no split), C03 (no wrong result) and C04 (no honest party named).
package equiv

import (
	"bytes"
	"errors"
	"fmt"
	"strings"

	"github.com/taurusgroup/multi-party-sig/internal/round"
	"github.com/taurusgroup/multi-party-sig/pkg/party"
	"github.com/taurusgroup/multi-party-sig/pkg/protocol"
	"github.com/taurusgroup/multi-party-sig/verifharness/adv"
	"github.com/taurusgroup/multi-party-sig/verifharness/advrun"
	"github.com/taurusgroup/multi-party-sig/verifharness/ev"
	"github.com/taurusgroup/multi-party-sig/verifharness/fix"
	"github.com/taurusgroup/multi-party-sig/verifharness/pbt"
	"github.com/taurusgroup/multi-party-sig/verifharness/proto"
	"github.com/taurusgroup/multi-party-sig/verifharness/sim"
	"github.com/taurusgroup/multi-party-sig/verifharness/tape"
	"pgregory.net/rapid"
)

// Case: one equivocating participant (two individually valid twins sharing their randomness up to the
// round in which they fork) and a partition of the honest parties into the audiences of the two twins.
type Case struct {
	Proto   string
	Pattern string // toy
	Honest  int    // number of honest parties (>= 3 recommended; >= 2 required)
	Cheater int    // position of the equivocator in the sorted party list
	Round   int    // the broadcast round in which the twins start to differ
	Split   int    // bit i set: honest party i listens to twin B
	Seed    uint64
	Sched   []int
	// Resend: the round-Round broadcast of twin B is ALSO delivered to the audience of twin A (a second, different
	// version from the same sender; whichever version a party is handed first is the one it acts on)
	Resend bool `json:",omitempty"`
}

func build(c Case) (*proto.Session, *proto.Material, error) {
	n := c.Honest + 1
	if c.Proto == proto.Toy {
		ids := fix.SortedIDs(fix.IDs("letters", n, 0))
		return &proto.Session{Proto: proto.Toy, Pattern: c.Pattern, SessionID: []byte("c06"), IDs: ids}, nil, nil
	}
	return advrun.Build(advrun.Setup{Proto: c.Proto, N: n, T: n - 1, Seed: c.Seed})
}

func install(c Case) (*tape.Mux, func()) {
	mux := tape.Install(c.Seed)
	un := func() {}
	if c.Proto == proto.CMPKeygen || c.Proto == proto.CMPRefresh {
		un = fix.InstallPrimeSourceByParty(mux, int(c.Seed%31))
	}
	return mux, func() { un(); mux.Uninstall() }
}

// offsets: how many bytes of its randomness the cheater had consumed when it started to finalize each round.
var offCache = map[string]map[int]int64{}

func offsets(c Case, cheater party.ID) (map[int]int64, error) {
	key := fmt.Sprintf("%s/%s/%d/%d/%d", c.Proto, c.Pattern, c.Honest, c.Cheater, c.Seed)
	if v, ok := offCache[key]; ok {
		return v, nil
	}
	sess, _, err := build(c)
	if err != nil {
		return nil, err
	}
	mux, undo := install(c)
	defer undo()
	off := map[int]int64{}
	sess.Wrap = func(id party.ID, f protocol.StartFunc) protocol.StartFunc {
		if id != cheater {
			return f
		}
		return adv.WrapStart(f, &adv.Hooks{Before: func(r round.Session) {
			if _, ok := off[int(r.Number())]; !ok {
				off[int(r.Number())] = mux.Pos(string(cheater))
			}
		}})
	}
	n := sim.New(mux)
	if err := sess.AddAll(n); err != nil {
		return nil, err
	}
	if err := n.Run(sim.FIFO, 100000); err != nil {
		return nil, err
	}
	offCache[key] = off
	return off, nil
}

// Result is what the oracles of the three properties look at. Skipped: the case does not describe an equivocation
// the statement covers (no such round, final round, empty audience).
type Result struct {
	Skipped  bool
	Net      *sim.Net
	Session  *proto.Session
	Material *proto.Material
	Cheater  party.ID
	Honest   []party.ID
	GroupA   map[string]bool
	GroupB   map[string]bool
	NameA    string
	NameB    string
	Differ   bool // the twins really sent different payloads in broadcast round Case.Round
	FinA     []string
	FinB     []string
}

// Run executes the case; a *pbt.Fail is a harness-level observation (panic, hang, fork too early).
func Run(c Case) (*Result, *pbt.Fail) {
	skipped := &Result{Skipped: true}
	sess, mat, err := build(c)
	if err != nil {
		return nil, pbt.Failf("harness-error", err.Error())
	}
	order := sess.Order()
	cheater := order[c.Cheater%len(order)]
	off, err := offsets(c, cheater)
	if err != nil {
		return nil, FailOf(err)
	}
	forkAt, ok := off[c.Round-1]
	if !ok {
		return skipped, nil // no such round
	}
	last := 0
	for r := range off {
		if r > last {
			last = r
		}
	}
	if c.Round >= last {
		return skipped, nil // the statement is about broadcast rounds that are followed by a further round
	}
	var honest []party.ID
	for _, id := range order {
		if id != cheater {
			honest = append(honest, id)
		}
	}
	groupB := map[string]bool{}
	groupA := map[string]bool{}
	for i, id := range honest {
		if c.Split>>uint(i)&1 == 1 {
			groupB[string(id)] = true
		} else {
			groupA[string(id)] = true
		}
	}
	if len(groupA) == 0 || len(groupB) == 0 {
		return skipped, nil
	}
	mux, undo := install(c)
	defer undo()
	nameA, nameB := string(cheater)+"#a", string(cheater)+"#b"
	mux.Set(nameA, tape.NewStream(c.Seed, string(cheater), 0))
	mux.Set(nameB, tape.NewForked(c.Seed, string(cheater), 0, forkAt, 1))
	n := sim.New(mux)
	for _, id := range order {
		id := id
		if id == cheater {
			for _, nm := range []string{nameA, nameB} {
				p, err := n.Add(nm, id, func() (protocol.Handler, error) { return sess.Handler(id) })
				if err != nil {
					return nil, FailOf(err)
				}
				if nm == nameA {
					p.Audience = groupA
				} else {
					p.Audience = groupB
				}
			}
			continue
		}
		if _, err := n.Add(string(id), id, func() (protocol.Handler, error) { return sess.Handler(id) }); err != nil {
			return nil, FailOf(err)
		}
	}
	if c.Resend {
		// The cheater also controls the echo hash it attaches: towards audience A it keeps sending content that fits
		// version A but, from the next round on, with the hash of the view that contains version B (which is what an
		// honest party that was handed B holds). Twin A's next-round messages are held back until twin B has produced its
		// own, whose hash they then carry.
		prev := n.OnEmit
		var hashB []byte
		var held []*sim.Msg
		n.OnEmit = func(from *sim.Party, m *sim.Msg) []*sim.Msg {
			if prev != nil {
				if r := prev(from, m); r != nil {
					return r
				}
			}
			switch {
			case from.Name == nameB && int(m.RoundNumber) == c.Round && m.Broadcast:
				for name := range groupA {
					n.Inject(nameB, sim.Clone(m), name, false)
				}
			case from.Name == nameB && int(m.RoundNumber) == c.Round+1 && hashB == nil && m.BroadcastVerification != nil:
				hashB = append([]byte{}, m.BroadcastVerification...)
				for _, h := range held {
					h.BroadcastVerification = hashB
					n.Post(n.Party(nameA), h)
				}
				held = nil
			case from.Name == nameA && int(m.RoundNumber) == c.Round+1:
				if hashB == nil {
					held = append(held, m)
					return []*sim.Msg{}
				}
				m.BroadcastVerification = hashB
				return []*sim.Msg{m}
			}
			return nil
		}
	}
	n.Start()
	if err := n.Run(sim.FromList(c.Sched), 200000); err != nil {
		return nil, FailOf(err)
	}
	// did the twins really equivocate in round Round?
	payload := func(name string) []byte {
		for _, m := range n.Party(name).Sent {
			if int(m.RoundNumber) == c.Round && m.Broadcast {
				return m.Data
			}
		}
		return nil
	}
	pa, pb := payload(nameA), payload(nameB)
	differ := pa != nil && pb != nil && !bytes.Equal(pa, pb)
	// earlier rounds must be identical (the fork is exactly at Round)
	for _, m := range n.Party(nameA).Sent {
		if int(m.RoundNumber) < c.Round && int(m.RoundNumber) > 0 {
			for _, m2 := range n.Party(nameB).Sent {
				if m2.RoundNumber == m.RoundNumber && m2.Broadcast == m.Broadcast && m2.To == m.To && !bytes.Equal(m.Data, m2.Data) {
					// the cheater's randomness consumption before the fork depends on the schedule here, so the twins of this
					// case do not realise "identical up to round Round": the case is discarded (counted), it is no observation
					ev.Get().Count("discarded:fork-too-early", 1)
					return skipped, nil
				}
			}
		}
	}
	var finA, finB []string
	for _, id := range honest {
		if n.Party(string(id)).Outcome().Finished {
			if groupB[string(id)] {
				finB = append(finB, string(id))
			} else {
				finA = append(finA, string(id))
			}
		}
	}
	return &Result{Net: n, Session: sess, Material: mat, Cheater: cheater, Honest: honest, GroupA: groupA, GroupB: groupB,
		NameA: nameA, NameB: nameB, Differ: differ, FinA: finA, FinB: finB}, nil
}

// Report converts the run into the report the C03 / C04 oracles of advrun work on.
func (r *Result) Report(c Case) *advrun.Report {
	rep := &advrun.Report{Case: advrun.Case{Setup: advrun.Setup{Proto: c.Proto, N: c.Honest + 1, T: c.Honest, Seed: c.Seed}}, Cheater: r.Cheater, Honest: r.Honest,
		Outcome: map[party.ID]sim.Outcome{}, Relayed: map[party.ID]bool{}, Material: r.Material, Net: r.Net, Session: r.Session}
	for _, id := range r.Honest {
		rep.Collect(r.Net.Party(string(id)), id)
	}
	return rep
}

// FailOf classifies a simulator error.
func FailOf(err error) *pbt.Fail {
	var pe *sim.PanicError
	if errors.As(err, &pe) {
		return pbt.Failf("panic:"+ev.PanicSite(pe.Stack), pe.Error()+"\n"+pe.Stack)
	}
	var he *sim.HangError
	if errors.As(err, &he) || strings.Contains(err.Error(), "step timeout") {
		return pbt.Failf("inconclusive:hang", err.Error())
	}
	return pbt.Failf("harness-error", err.Error())
}

var _ = strings.Contains
var _ = bytes.Equal
var _ = fmt.Sprintf

// Gen draws a case for one of the protocols, steered towards rounds that exist and are followed by another round.
func Gen(t *rapid.T, protos []string, maxHonest int) Case {
	c := Case{Proto: rapid.SampledFrom(protos).Draw(t, "proto")}
	c.Honest = rapid.IntRange(2, maxHonest).Draw(t, "honest")
	if rapid.IntRange(0, 3).Draw(t, "atLeast3") != 0 && c.Honest < 3 {
		c.Honest = 3
	}
	if c.Proto == proto.Toy {
		c.Pattern = rapid.StringMatching("[bx][bpx]{1,3}").Draw(t, "pattern")
	}
	c.Cheater = rapid.IntRange(0, c.Honest).Draw(t, "cheater")
	c.Round = rapid.IntRange(2, 7).Draw(t, "round")
	// steer towards rounds that exist and are followed by another round (the run itself re-checks)
	switch {
	case c.Proto == proto.Toy:
		var rs []int
		for i, ch := range c.Pattern[:len(c.Pattern)-1] {
			if ch != 'p' {
				rs = append(rs, i+2)
			}
		}
		if len(rs) > 0 {
			c.Round = rs[c.Round%len(rs)]
		}
	case strings.HasPrefix(c.Proto, "frost-"):
		c.Round = 2
	case c.Proto == proto.CMPKeygen || c.Proto == proto.CMPRefresh || c.Proto == proto.CMPSign:
		c.Round = 2 + c.Round%3
	case c.Proto == proto.CMPPresign:
		c.Round = 2 + c.Round%5
	}
	c.Split = rapid.IntRange(1, 1<<uint(c.Honest)-2).Draw(t, "split")
	c.Resend = rapid.IntRange(0, 3).Draw(t, "resend") == 0
	c.Seed = rapid.Uint64Range(1, 3).Draw(t, "seed")
	c.Sched = rapid.SliceOfN(rapid.IntRange(0, 4095), 0, 60).Draw(t, "sched")
	return c
}
