package c11

import (
	"bytes"
	"crypto/rand"
	"fmt"
	"io"
	"math/big"
	"testing"

	"github.com/fxamacker/cbor/v2"
	"github.com/taurusgroup/multi-party-sig/pkg/party"
	"github.com/taurusgroup/multi-party-sig/pkg/protocol"
	"github.com/taurusgroup/multi-party-sig/pkg/taproot"
	"github.com/taurusgroup/multi-party-sig/protocols/frost"
	"github.com/taurusgroup/multi-party-sig/verifharness/conv"
	"github.com/taurusgroup/multi-party-sig/verifharness/fix"
	"github.com/taurusgroup/multi-party-sig/verifharness/pbt"
	"github.com/taurusgroup/multi-party-sig/verifharness/proto"
	"github.com/taurusgroup/multi-party-sig/verifharness/ref"
	"github.com/taurusgroup/multi-party-sig/verifharness/tape"
	"pgregory.net/rapid"
)

func TestMain(m *testing.M)   { pbt.Main(m) }
func TestReplay(t *testing.T) { pbt.Replay(t) }
func TestCorpus(t *testing.T) { pbt.Corpus(t) }

// Ctx is one FROST signing context of one signer.
type Ctx struct {
	Taproot    bool
	N, T       int
	Signers    []int
	Self       int // index into Signers
	Msg        string
	Session    string
	KeySeed    uint64
	ShareDelta int64 // added to the signer's secret share (0 = the dealt share)
}

type Case struct {
	A, B   Ctx
	Differ string // which component differs (none = identical inputs)
	RNG    string // zero, a5, repeat32, honest
}

func reader(kind string) io.Reader {
	switch kind {
	case "zero":
		return tape.Const(0)
	case "a5":
		return tape.Const(0xA5)
	case "repeat32":
		p := make([]byte, 32)
		for i := range p {
			p[i] = byte(i*7 + 3)
		}
		return &tape.Repeating{Pattern: p}
	}
	return nil
}

// commitments runs round 1 of FROST signing for the context and returns (D_i, E_i) as published.
func commitments(c Ctx, rng string) (D, E []byte, err error) {
	ids := fix.IDs("letters", c.N, 0)
	scheme := proto.SchemeFrost
	if c.Taproot {
		scheme = proto.SchemeFrostTap
	}
	ck := fmt.Sprintf("%s/%d/%d/%d", scheme, c.KeySeed, c.N, c.T)
	m := matCache[ck]
	if m == nil {
		m, err = proto.Deal(scheme, c.KeySeed, ids, c.T)
		if err != nil {
			return nil, nil, err
		}
		matCache[ck] = m
	}
	var signers []party.ID
	for _, i := range c.Signers {
		signers = append(signers, m.IDs[i])
	}
	self := signers[c.Self]
	var start protocol.StartFunc
	if c.Taproot {
		cfg := m.FrostTap[self]
		if c.ShareDelta != 0 {
			cfg = cfg.Clone()
			cfg.PrivateShare.Add(conv.Scalar(big.NewInt(c.ShareDelta)))
		}
		start = frost.SignTaproot(cfg, signers, conv.UnHex(c.Msg))
	} else {
		cfg := *m.Frost[self]
		if c.ShareDelta != 0 {
			cfg.PrivateShare = conv.Scalar(new(big.Int).Add(conv.Big(cfg.PrivateShare), big.NewInt(c.ShareDelta)))
		}
		start = frost.Sign(&cfg, signers, conv.UnHex(c.Msg))
	}
	var h *protocol.MultiHandler
	run := func() { h, err = protocol.NewMultiHandler(start, []byte(c.Session)) }
	if r := reader(rng); r != nil {
		tape.With(r, run)
	} else {
		run()
	}
	if err != nil {
		return nil, nil, err
	}
	select {
	case msg := <-h.Listen():
		if msg == nil || !msg.Broadcast || msg.RoundNumber != 2 {
			return nil, nil, fmt.Errorf("unexpected first message %v", msg)
		}
		var body map[string][]byte
		if err := cbor.Unmarshal(msg.Data, &body); err != nil {
			return nil, nil, err
		}
		if len(body["D_i"]) != 33 || len(body["E_i"]) != 33 {
			return nil, nil, fmt.Errorf("round-2 broadcast does not carry two 33-byte commitments: %v", body)
		}
		return body["D_i"], body["E_i"], nil
	default:
		return nil, nil, fmt.Errorf("no outgoing message after construction")
	}
}

var matCache = map[string]*proto.Material{}

func run(c Case) *pbt.Fail {
	da, ea, err := commitments(c.A, c.RNG)
	if err != nil {
		return pbt.Failf("setup", err.Error())
	}
	db, eb, err := commitments(c.B, c.RNG)
	if err != nil {
		return pbt.Failf("setup", err.Error())
	}
	if bytes.Equal(da, ea) {
		return pbt.Failf("frost-d-equals-e", "the two nonce commitments of one signer coincide")
	}
	if bytes.Equal(da, db) || bytes.Equal(ea, eb) || bytes.Equal(da, eb) || bytes.Equal(ea, db) {
		return pbt.Failf("frost-nonce-reuse:"+c.Differ+":"+rngClass(c.RNG), fmt.Sprintf("contexts differing in %q publish a common nonce commitment under random source %q: D=%x/%x E=%x/%x", c.Differ, c.RNG, da, db, ea, eb))
	}
	return nil
}

func rngClass(r string) string {
	if r == "honest" {
		return "honest"
	}
	return "broken"
}

var prop = pbt.Define(pbt.Prop[Case]{Kind: "frost-nonce", Run: run, Class: func(c Case) (string, bool) {
	v := "generic"
	if c.A.Taproot {
		v = "taproot"
	}
	return fmt.Sprintf("frost|%s|differ=%s|rng=%s", v, c.Differ, c.RNG), true
}})

func genCtx(t *rapid.T) Ctx {
	c := Ctx{Taproot: rapid.Bool().Draw(t, "taproot")}
	c.N = rapid.IntRange(2, 5).Draw(t, "n")
	c.T = rapid.IntRange(0, c.N-2).Draw(t, "t") // leaves room to vary the signer set
	k := rapid.IntRange(c.T+1, c.N-1).Draw(t, "k")
	perm := rapid.Permutation(seq(c.N)).Draw(t, "perm")
	c.Signers = append([]int{}, perm[:k]...)
	c.Self = rapid.IntRange(0, k-1).Draw(t, "self")
	c.Msg = conv.Hex(rapid.SliceOfN(rapid.Byte(), 1, 64).Draw(t, "msg"))
	c.Session = rapid.StringMatching("[a-z0-9]{0,8}").Draw(t, "session")
	c.KeySeed = rapid.Uint64Range(1, 6).Draw(t, "keySeed")
	return c
}

func seq(n int) []int {
	o := make([]int, n)
	for i := range o {
		o[i] = i
	}
	return o
}

func TestFrostNonce(t *testing.T) {
	rapid.Check(t, func(rt *rapid.T) {
		a := genCtx(rt)
		b := a
		b.Signers = append([]int{}, a.Signers...)
		rng := rapid.SampledFrom([]string{"zero", "a5", "repeat32", "honest"}).Draw(rt, "rng")
		kinds := []string{"message", "message-length", "signer-set", "session", "share", "variant"}
		if rng == "honest" {
			kinds = append(kinds, "none", "none")
		}
		differ := rapid.SampledFrom(kinds).Draw(rt, "differ")
		switch differ {
		case "message":
			m := conv.UnHex(a.Msg)
			i := rapid.IntRange(0, len(m)-1).Draw(rt, "pos")
			m[i] ^= 1 << uint(rapid.IntRange(0, 7).Draw(rt, "bit"))
			b.Msg = conv.Hex(m)
		case "message-length":
			b.Msg = a.Msg + "00"
		case "signer-set":
			// add a signer that is not in the set
			in := map[int]bool{}
			for _, s := range a.Signers {
				in[s] = true
			}
			for i := 0; i < a.N; i++ {
				if !in[i] {
					b.Signers = append(b.Signers, i)
					break
				}
			}
		case "session":
			b.Session = a.Session + "x"
		case "share":
			b.ShareDelta = int64(rapid.IntRange(1, 1000).Draw(rt, "delta"))
		case "variant":
			b.Taproot = !a.Taproot
		}
		prop.One(rt, Case{A: a, B: b, Differ: differ, RNG: rng})
	})
}

// ---- stand-alone BIP-340 signing

type bipCase struct {
	KeyA, KeyB string
	MsgA, MsgB string
	Differ     string
	RNG        string // const-zero, const-a5, repeat32, nil (counter), honest
}

// shortReader is an honest random source that hands out its stream one byte per Read call (io.Reader allows that).
type shortReader struct{ data []byte }

func (s *shortReader) Read(p []byte) (int, error) {
	if len(p) == 0 {
		return 0, nil
	}
	if len(s.data) == 0 {
		s.data = []byte{0x5a}
	}
	p[0] = s.data[0]
	if len(s.data) > 1 {
		s.data = s.data[1:]
	}
	return 1, nil
}

func bipRun(c bipCase) *pbt.Fail {
	calls := 0
	sign := func(key, msg string) ([]byte, error) {
		sk := taproot.SecretKey(ref.Bytes32(conv.BigHex(key)))
		var r io.Reader
		calls++
		switch c.RNG {
		case "nil":
			r = nil
		case "honest":
			r = rand.Reader
		case "honest-short-reads":
			// two honest streams that share their first byte and differ afterwards, delivered one byte per Read
			st := make([]byte, 64)
			for i := range st {
				st[i] = byte(i*31 + 7*calls*(i+1))
			}
			st[0] = 0x42
			r = &shortReader{data: st}
		default:
			r = reader(map[string]string{"const-zero": "zero", "const-a5": "a5", "repeat32": "repeat32"}[c.RNG])
		}
		return sk.Sign(r, conv.UnHex(msg))
	}
	sa, err := sign(c.KeyA, c.MsgA)
	if err != nil {
		return pbt.Failf("bip340-sign-error", err.Error())
	}
	sb, err := sign(c.KeyB, c.MsgB)
	if err != nil {
		return pbt.Failf("bip340-sign-error", err.Error())
	}
	if bytes.Equal(sa[:32], sb[:32]) {
		return pbt.Failf("bip340-nonce-reuse:"+c.Differ+":"+c.RNG, fmt.Sprintf("signatures over inputs differing in %q share the nonce point R.x=%x under random source %q", c.Differ, sa[:32], c.RNG))
	}
	// both must still be valid signatures (a degenerate nonce derivation could trivially avoid equality)
	for i, s := range [][]byte{sa, sb} {
		key, msg := c.KeyA, c.MsgA
		if i == 1 {
			key, msg = c.KeyB, c.MsgB
		}
		if !ref.BIP340Verify(ref.BIP340PubKey(conv.BigHex(key)), conv.UnHex(msg), s) {
			return pbt.Failf("bip340-invalid", "signature does not verify under the reference")
		}
	}
	return nil
}

var bipProp = pbt.Define(pbt.Prop[bipCase]{Kind: "bip340-nonce", Run: bipRun, Class: func(c bipCase) (string, bool) {
	return fmt.Sprintf("bip340|differ=%s|rng=%s", c.Differ, c.RNG), true
}})

func TestBIP340Nonce(t *testing.T) {
	rapid.Check(t, func(rt *rapid.T) {
		key := func(l string) string {
			b := rapid.SliceOfN(rapid.Byte(), 32, 32).Draw(rt, l)
			d := new(big.Int).SetBytes(b)
			d.Mod(d, new(big.Int).Sub(ref.N, big.NewInt(1))).Add(d, big.NewInt(1))
			return fmt.Sprintf("%064x", d)
		}
		c := bipCase{KeyA: key("keyA"), MsgA: conv.Hex(rapid.SliceOfN(rapid.Byte(), 0, 64).Draw(rt, "msg"))}
		c.KeyB, c.MsgB = c.KeyA, c.MsgA
		c.RNG = rapid.SampledFrom([]string{"const-zero", "const-a5", "repeat32", "nil", "honest", "honest-short-reads"}).Draw(rt, "rng")
		kinds := []string{"key", "message", "message-length"}
		if c.RNG == "nil" || c.RNG == "honest" || c.RNG == "honest-short-reads" {
			kinds = append(kinds, "none", "none")
		}
		c.Differ = rapid.SampledFrom(kinds).Draw(rt, "differ")
		switch c.Differ {
		case "key":
			c.KeyB = key("keyB")
		case "message":
			m := conv.UnHex(c.MsgA)
			if len(m) == 0 {
				m = []byte{0}
				c.MsgA = "00"
			}
			m[rapid.IntRange(0, len(m)-1).Draw(rt, "pos")] ^= 0x80
			c.MsgB = conv.Hex(m)
		case "message-length":
			c.MsgB = c.MsgA + "00"
		}
		bipProp.One(rt, c)
	})
}
