package c03

import (
	"fmt"
	"sort"
	"strings"
	"testing"

	"github.com/taurusgroup/multi-party-sig/verifharness/equiv"
	"github.com/taurusgroup/multi-party-sig/verifharness/ev"
	"github.com/taurusgroup/multi-party-sig/verifharness/pbt"
	"github.com/taurusgroup/multi-party-sig/verifharness/proto"
	"pgregory.net/rapid"
)

// Equivocation: the deviating party alters a broadcast differently per recipient, each version being a valid
// (re-randomised) broadcast of its own; the engine is the twin construction shared with C06.

var lastEq string

func keys(m map[string]bool) []string {
	var out []string
	for k := range m {
		out = append(out, k)
	}
	sort.Strings(out)
	return out
}

func eqRun(c equiv.Case) *pbt.Fail {
	lastEq = "skipped"
	r, f := equiv.Run(c)
	if f != nil {
		return f
	}
	if r.Skipped {
		return nil
	}
	rep := r.Report(c)
	lastEq = fmt.Sprintf("r=%d|differ=%v|%s", c.Round, r.Differ, rep.Summary())
	if !r.Differ {
		return nil
	}
	if sig, d := rep.WrongResult(); sig != "" {
		return pbt.Failf("equivocation:"+sig, fmt.Sprintf("%s (the deviating party %q sent different, individually valid round-%d broadcasts to %v and %v)", d, r.Cheater, c.Round, keys(r.GroupA), keys(r.GroupB)))
	}
	return nil
}

var eqProp = pbt.Define(pbt.Prop[equiv.Case]{Kind: "equivocation", Run: eqRun, Journal: true, Class: func(c equiv.Case) (string, bool) {
	return fmt.Sprintf("eq|%s|honest=%d|cheater=%d|%s", c.Proto, c.Honest, c.Cheater, lastEq), strings.Contains(lastEq, "differ=true")
}})

func TestEquivocationCheap(t *testing.T) {
	rapid.Check(t, func(rt *rapid.T) {
		eqProp.One(rt, equiv.Gen(rt, []string{proto.FrostKeygen, proto.FrostKeygenTap, proto.FrostSign, proto.FrostSignTap, proto.FrostRefresh, proto.FrostRefreshTap}, 4))
	})
}

func TestEquivocationCMP(t *testing.T) {
	rapid.Check(t, func(rt *rapid.T) {
		c := equiv.Gen(rt, []string{proto.CMPSign, proto.CMPPresign, proto.CMPKeygen, proto.CMPRefresh}, 2)
		if ev.Get().Thorough() && rapid.Bool().Draw(rt, "three") {
			c.Honest = 3
			c.Split = 1 + c.Split%6
		}
		eqProp.One(rt, c)
	})
}
