package c03

import (
	"errors"
	"fmt"
	"strings"
	"testing"

	"github.com/taurusgroup/multi-party-sig/verifharness/adv"
	"github.com/taurusgroup/multi-party-sig/verifharness/advrun"
	"github.com/taurusgroup/multi-party-sig/verifharness/ev"
	"github.com/taurusgroup/multi-party-sig/verifharness/mut"
	"github.com/taurusgroup/multi-party-sig/verifharness/pbt"
	"github.com/taurusgroup/multi-party-sig/verifharness/proto"
	"github.com/taurusgroup/multi-party-sig/verifharness/sim"
	"pgregory.net/rapid"
)

func TestMain(m *testing.M)   { pbt.Main(m) }
func TestReplay(t *testing.T) { pbt.Replay(t) }
func TestCorpus(t *testing.T) { pbt.Corpus(t) }

// Case is one session with one tampering participant.
type Case struct {
	Setup     advrun.Setup
	Cheater   int
	Tamper    *adv.Tamper
	Deviation string
	DropAbort bool
	Sched     []int
}

var last string

func run(c Case) *pbt.Fail {
	last = ""
	rep, err := advrun.Run(advrun.Case{Setup: c.Setup, Cheater: c.Cheater, Tamper: c.Tamper, Deviation: c.Deviation, DropAbort: c.DropAbort, Sched: c.Sched})
	if err != nil {
		var pe *sim.PanicError
		if errors.As(err, &pe) {
			return pbt.Failf("panic:"+c.Setup.Proto+":"+ev.PanicSite(pe.Stack), "a party panics while processing the tampering party's traffic: "+pe.Error()+"\n"+pe.Stack)
		}
		var he *sim.HangError
		if errors.As(err, &he) || strings.Contains(err.Error(), "step timeout") {
			return pbt.Failf("inconclusive:hang", err.Error())
		}
		return pbt.Failf("harness-error", err.Error())
	}
	what := c.Deviation
	if c.Tamper != nil {
		if rep.Applied == nil || rep.Applied.Count == 0 {
			last = "not-applied"
			return nil
		}
		what = fmt.Sprintf("r%d|bc=%v|%s|%s|%s", c.Tamper.Round, c.Tamper.Broadcast, rep.Applied.Generic, rep.Applied.LeafKind, c.Tamper.Kind)
		if c.Tamper.Early {
			what += "+early"
		}
	} else if rep.DevHits == 0 {
		last = "not-applied"
		return nil
	}
	last = what + "|" + rep.Summary()
	if sig, d := rep.WrongResult(); sig != "" {
		return pbt.Failf(sig, fmt.Sprintf("%s (deviation: %s)", d, what))
	}
	return nil
}

var prop = pbt.Define(pbt.Prop[Case]{Kind: "tampering", Run: run, Journal: true, Class: func(c Case) (string, bool) {
	return fmt.Sprintf("%s|n=%d|%s", c.Setup.Proto, c.Setup.N, last), last != "not-applied"
}})

type slot struct {
	Round     int
	Broadcast bool
	To        string
	Path      string
}

var slotCache = map[string][]slot{}

func slots(s advrun.Setup, cheater int) []slot {
	key := fmt.Sprintf("%v/%d", s, cheater)
	if v, ok := slotCache[key]; ok {
		return v
	}
	n, err := advrun.Honest(s)
	if err != nil {
		return nil
	}
	p := n.Parties[cheater%len(n.Parties)]
	var out []slot
	seen := map[string]bool{}
	for _, m := range p.Sent {
		if m.RoundNumber == 0 {
			continue
		}
		for _, path := range adv.LeafPaths(m.Data) {
			k := fmt.Sprintf("%d|%v|%s|%s", m.RoundNumber, m.Broadcast, m.To, path)
			if seen[k] {
				continue
			}
			seen[k] = true
			out = append(out, slot{Round: int(m.RoundNumber), Broadcast: m.Broadcast, To: string(m.To), Path: path})
		}
	}
	slotCache[key] = out
	return out
}

var cheapProtos = []string{proto.FrostKeygen, proto.FrostKeygenTap, proto.FrostRefresh, proto.FrostRefreshTap, proto.FrostSign, proto.FrostSignTap, proto.DoernerKeygen, proto.DoernerRefresh, proto.DoernerSign}
var cmpProtos = []string{proto.CMPKeygen, proto.CMPRefresh, proto.CMPSign, proto.CMPPresign, proto.CMPPresignFull, proto.CMPPresignOnline}

func gen(t *rapid.T, protos []string, maxN int) (Case, bool) {
	p := rapid.SampledFrom(protos).Draw(t, "proto")
	c := Case{Setup: advrun.Setup{Proto: p, Seed: rapid.Uint64Range(1, 2).Draw(t, "seed")}}
	if strings.HasPrefix(p, "doerner") {
		c.Setup.N, c.Setup.T = 2, 1
	} else {
		c.Setup.N = rapid.IntRange(2, maxN).Draw(t, "n")
		c.Setup.T = c.Setup.N - 1
		if !strings.HasPrefix(p, "cmp-") && !strings.Contains(p, "sign") {
			c.Setup.T = rapid.IntRange(0, c.Setup.N-1).Draw(t, "t")
		}
	}
	if strings.Contains(p, "sign") && p != proto.CMPPresign {
		c.Setup.MsgLen = rapid.SampledFrom([]int{0, 0, 0, 20, 33, 64}).Draw(t, "msgLen")
	}
	c.Cheater = rapid.IntRange(0, c.Setup.N-1).Draw(t, "cheater")
	c.DropAbort = rapid.Bool().Draw(t, "dropAbort")
	c.Sched = rapid.SliceOfN(rapid.IntRange(0, 4095), 0, 30).Draw(t, "sched")
	if (p == proto.CMPPresign || p == proto.CMPPresignFull || p == proto.CMPPresignOnline) && rapid.IntRange(0, 3).Draw(t, "stateLevel") == 0 {
		devs := advrun.Deviations
		if p == proto.CMPPresignOnline {
			devs = []string{"sigma-share", "sigma-neg"}
		} else if p == proto.CMPPresign {
			devs = devs[:5]
		}
		c.Deviation = rapid.SampledFrom(devs).Draw(t, "deviation")
		return c, true
	}
	if strings.HasPrefix(p, "cmp-") && rapid.IntRange(0, 3).Draw(t, "ciphertextLevel") == 0 {
		devs := advrun.CiphertextDeviationsFor(p)
		if len(devs) > 0 {
			c.Deviation = rapid.SampledFrom(devs).Draw(t, "ctDeviation")
			return c, true
		}
	}
	ss := slots(c.Setup, c.Cheater)
	if len(ss) == 0 {
		return c, false
	}
	// two-stage choice: first the message field (array positions collapsed), then one occurrence of it; a uniform choice over
	// all leaves would spend almost every case on the hundreds of entries of the OT matrices
	var fields []string
	byField := map[string][]slot{}
	for _, sl := range ss {
		k := fmt.Sprintf("%d|%v|%s|%s", sl.Round, sl.Broadcast, sl.To, mut.Generic(sl.Path))
		if _, ok := byField[k]; !ok {
			fields = append(fields, k)
		}
		byField[k] = append(byField[k], sl)
	}
	group := byField[fields[rapid.IntRange(0, len(fields)-1).Draw(t, "field")]]
	s := group[rapid.IntRange(0, len(group)-1).Draw(t, "slot")]
	kind := rapid.SampledFrom([]string{"value", "value", "copy-other-recipient", "copy-other-sender", "substitute-other-recipient", "substitute-other-round"}).Draw(t, "kind")
	c.Tamper = &adv.Tamper{Round: s.Round, Broadcast: s.Broadcast, To: s.To, Path: s.Path, Kind: kind, Variant: rapid.IntRange(0, 5).Draw(t, "variant")}
	if (s.Round >= 3 || strings.HasPrefix(p, "doerner")) && (kind == "value" || kind == "copy-other-sender") {
		// the altered message may also arrive ahead of its round (it is then queued and verified when the round is reached)
		c.Tamper.Early = rapid.IntRange(0, 3).Draw(t, "early") == 0
	}
	return c, true
}

func TestCheap(t *testing.T) {
	rapid.Check(t, func(rt *rapid.T) {
		if c, ok := gen(rt, cheapProtos, 4); ok {
			prop.One(rt, c)
		}
	})
}

func TestCMP(t *testing.T) {
	rapid.Check(t, func(rt *rapid.T) {
		if c, ok := gen(rt, cmpProtos, 3); ok {
			prop.One(rt, c)
		}
	})
}

// TestWalk (thorough) applies one value alteration to every field of every message of every protocol (n = 2 and 3 for cheap protocols).
func TestWalk(t *testing.T) {
	rec := ev.Get()
	i := 0
	for _, p := range append(append([]string{}, cheapProtos...), cmpProtos...) {
		ns := []int{2}
		if !strings.HasPrefix(p, "cmp-") && !strings.HasPrefix(p, "doerner") {
			ns = []int{2, 3}
		}
		for _, n := range ns {
			s := advrun.Setup{Proto: p, N: n, T: n - 1, Seed: 1}
			for cheater := 0; cheater < n; cheater++ {
				for _, sl := range slots(s, cheater) {
					for _, kind := range []string{"value", "copy-other-sender", "value+early"} {
						early := strings.HasSuffix(kind, "+early")
						if early && sl.Round < 3 && !strings.HasPrefix(p, "doerner") {
							continue
						}
						i++
						if !rec.Mine(i) {
							continue
						}
						prop.One(t, Case{Setup: s, Cheater: cheater, Tamper: &adv.Tamper{Round: sl.Round, Broadcast: sl.Broadcast, To: sl.To, Path: sl.Path, Kind: strings.TrimSuffix(kind, "+early"), Variant: i, Early: early}})
					}
				}
			}
		}
	}
}

// TestCtDeviations enumerates the ciphertext-level deviations (a well-formed ciphertext of a wrong value to one
// recipient) over the CMP protocols: quick n=2, thorough n=2 and 3 with every cheater position.
func TestCtDeviations(t *testing.T) {
	rec := ev.Get()
	i := 0
	for _, p := range cmpProtos {
		devs := advrun.CiphertextDeviationsFor(p)
		ns := []int{2}
		if rec.Thorough() {
			ns = []int{2, 3}
		}
		for _, n := range ns {
			for di, d := range devs {
				for cheater := 0; cheater < n; cheater++ {
					if !rec.Thorough() && len(devs) > 1 && cheater != di%n {
						continue
					}
					i++
					if !rec.Mine(i) {
						continue
					}
					prop.One(t, Case{Setup: advrun.Setup{Proto: p, N: n, T: n - 1, Seed: 1}, Cheater: cheater, Deviation: d})
				}
			}
		}
	}
}
