package c08

import (
	"errors"
	"fmt"
	"math/big"
	"sort"
	"strings"
	"testing"

	"github.com/taurusgroup/multi-party-sig/pkg/party"
	"github.com/taurusgroup/multi-party-sig/verifharness/ev"
	"github.com/taurusgroup/multi-party-sig/verifharness/fix"
	"github.com/taurusgroup/multi-party-sig/verifharness/pbt"
	"github.com/taurusgroup/multi-party-sig/verifharness/proto"
	"github.com/taurusgroup/multi-party-sig/verifharness/ref"
	"github.com/taurusgroup/multi-party-sig/verifharness/sim"
	"github.com/taurusgroup/multi-party-sig/verifharness/tape"
	"pgregory.net/rapid"
)

func TestMain(m *testing.M)   { pbt.Main(m) }
func TestReplay(t *testing.T) { pbt.Replay(t) }
func TestCorpus(t *testing.T) { pbt.Corpus(t) }

// Op is one operation of a key life-cycle history.
type Op struct {
	Kind  string // refresh, restore, sign, sign-stale, reconstruct
	Pick  int    // subset / party selector
	Back  []int  // per selected member: how many epochs back (reconstruct); Back[0] for sign-stale
	Sched []int
}

type Case struct {
	Scheme string
	N, T   int
	Family string
	Source string // dealer / keygen
	Ops    []Op
	Seed   uint64
}

// subset picks a (t+1)-subset (or larger for signing) deterministically from Pick.
func subset(ids []party.ID, k, pick int) []party.ID {
	var all [][]int
	ref.Subsets(len(ids), k, func(idx []int) { all = append(all, idx) })
	idx := all[pick%len(all)]
	out := make([]party.ID, len(idx))
	for i, j := range idx {
		out[i] = ids[j]
	}
	return out
}

type epoch struct {
	m       *proto.Material // deep copy taken when the epoch ended (or current)
	secrets map[party.ID]*big.Int
}

func simErr(stage string, err error) *pbt.Fail {
	var pe *sim.PanicError
	if errors.As(err, &pe) {
		return pbt.Failf("panic:"+stage, pe.Error()+"\n"+pe.Stack)
	}
	if strings.Contains(err.Error(), "step timeout") {
		return pbt.Failf("inconclusive:timeout", err.Error())
	}
	return pbt.Failf("error:"+stage, err.Error())
}

var lastShape string

func run(c Case) *pbt.Fail {
	lastShape = ""
	ids := fix.IDs(c.Family, c.N, 0)
	var cur *proto.Material
	var err error
	if c.Source == "dealer" && c.Scheme != proto.SchemeDoerner {
		cur, err = proto.Deal(c.Scheme, c.Seed, ids, c.T)
	} else {
		if c.Scheme == proto.SchemeDoerner {
			ids = ids[:2]
		}
		cur, err = proto.Keygen(c.Scheme, c.Seed, ids, c.T, sim.FIFO)
	}
	if err != nil {
		return simErr("keygen", err)
	}
	key := cur.Pub
	epochs := []epoch{}
	snapshot := func() epoch { cl := cur.Clone(); return epoch{m: cl, secrets: cl.SecretShares()} }
	refreshed := false
	for oi, op := range c.Ops {
		seed := c.Seed + uint64(oi)*101 + 7
		switch op.Kind {
		case "refresh":
			old := snapshot()
			next, err := cur.Refresh(seed, sim.FromList(op.Sched))
			if err != nil {
				return simErr("refresh", err)
			}
			lastShape += "R"
			if !next.Pub.Equal(key) {
				return pbt.Failf("refresh-changes-key:"+c.Scheme, fmt.Sprintf("group public key changed in refresh #%d", len(epochs)+1))
			}
			next.Pub = key
			if is := proto.Consistent(next); is != nil {
				return pbt.Failf("refresh-inconsistent:"+is.Sig, "after refresh: "+is.Detail)
			}
			for id, s := range next.SecretShares() {
				// with threshold 0 every share IS the secret key, so it cannot change while the key stays the same
				if s.Cmp(old.secrets[id]) == 0 && (cur.T > 0 || c.Scheme == proto.SchemeDoerner) {
					return pbt.Failf("refresh-share-unchanged:"+c.Scheme, fmt.Sprintf("secret share of %q is the same before and after refresh", id))
				}
			}
			epochs = append(epochs, old)
			cur = next
			refreshed = true
		case "restore":
			r, err := cur.Restored()
			if err != nil {
				return pbt.Failf("restore-error:"+c.Scheme, err.Error())
			}
			r.Pub = cur.Pub
			cur = r
			lastShape += "S"
		case "sign":
			k := cur.T + 1 + op.Pick%(len(cur.IDs)-cur.T)
			signers := subset(cur.IDs, k, op.Pick/7)
			if c.Scheme == proto.SchemeDoerner {
				signers = cur.IDs
			}
			msg := []byte(fmt.Sprintf("c08 message %d", oi))
			p := proto.SignProto(c.Scheme)
			res, _, err := proto.RunHonest(cur.SignSession(p, signers, msg, []byte(fmt.Sprintf("c08-%d", oi))), seed, sim.FromList(op.Sched))
			if err != nil {
				return simErr("sign-after-"+lastShape, err)
			}
			for id, r := range res {
				if err := proto.CheckSignature(p, r, key, msg); err != nil {
					return pbt.Failf("sign-invalid-after-refresh:"+c.Scheme, fmt.Sprintf("party %q after history %s: %v", id, lastShape, err))
				}
			}
			lastShape += "G"
		case "sign-stale":
			if len(epochs) == 0 || (cur.T == 0 && c.Scheme != proto.SchemeDoerner) {
				continue // threshold 0: old and new shares coincide by necessity
			}
			back := 1
			if len(op.Back) > 0 {
				back = 1 + op.Back[0]%len(epochs)
			}
			old := epochs[len(epochs)-back].m.Clone()
			signers := subset(cur.IDs, cur.T+1, op.Pick/7)
			if c.Scheme == proto.SchemeDoerner {
				signers = cur.IDs
			}
			stale := signers[op.Pick%len(signers)]
			msg := []byte(fmt.Sprintf("c08 stale message %d", oi))
			p := proto.SignProto(c.Scheme)
			s := cur.Clone().SignSession(p, signers, msg, []byte(fmt.Sprintf("c08-stale-%d", oi)))
			// the stale signer uses its configuration of an earlier epoch
			switch c.Scheme {
			case proto.SchemeCMP:
				s.CMP[stale] = old.CMP[stale]
			case proto.SchemeFrost:
				s.Frost[stale] = old.Frost[stale]
			case proto.SchemeFrostTap:
				s.FrostTap[stale] = old.FrostTap[stale]
			case proto.SchemeDoerner:
				if stale == cur.IDs[0] {
					s.DoernerR = old.DoernerR
				} else {
					s.DoernerS = old.DoernerS
				}
			}
			lastShape += "X"
			if f := runStale(s, seed, op.Sched, len(signers) > 1 || c.Scheme == proto.SchemeDoerner, c.Scheme); f != nil {
				return f
			}
		case "reconstruct":
			if c.Scheme == proto.SchemeDoerner {
				// both shares, possibly of different epochs
				all := append(append([]epoch{}, epochs...), snapshot())
				e0, e1 := all[len(all)-1-pickBack(op.Back, 0, len(all))], all[len(all)-1-pickBack(op.Back, 1, len(all))]
				sum := new(big.Int).Add(e0.secrets[cur.IDs[0]], e1.secrets[cur.IDs[1]])
				same := pickBack(op.Back, 0, len(all)) == pickBack(op.Back, 1, len(all))
				if ref.BaseMul(sum).Equal(key) != same {
					return pbt.Failf("reconstruct-mixed-epochs:"+c.Scheme, fmt.Sprintf("shares of epochs (-%d,-%d) reconstruct key: %v", pickBack(op.Back, 0, len(all)), pickBack(op.Back, 1, len(all)), !same))
				}
				lastShape += "C"
				continue
			}
			all := append(append([]epoch{}, epochs...), snapshot())
			members := subset(cur.IDs, cur.T+1, op.Pick)
			xs := make([]*big.Int, len(members))
			ss := make([]*big.Int, len(members))
			backs := map[int]bool{}
			for i, id := range members {
				b := pickBack(op.Back, i, len(all))
				backs[b] = true
				xs[i] = ref.IDScalar(string(id))
				ss[i] = all[len(all)-1-b].secrets[id]
			}
			got := ref.BaseMul(ref.Reconstruct(xs, ss)).Equal(key)
			mixed := len(backs) > 1
			if mixed {
				lastShape += "M"
			} else {
				lastShape += "C"
			}
			if got == mixed {
				return pbt.Failf(fmt.Sprintf("reconstruct-mixed=%v:%s", mixed, c.Scheme), fmt.Sprintf("subset %v with epochs back %v: reconstructs the key = %v", members, op.Back, got))
			}
		}
	}
	_ = refreshed
	return nil
}

func pickBack(back []int, i, n int) int {
	if i >= len(back) {
		return 0
	}
	return back[i] % n
}

// runStale runs a signing session in which one signer uses pre-refresh material: no party may obtain a signature.
func runStale(s *proto.Session, seed uint64, sched []int, meaningful bool, scheme string) *pbt.Fail {
	mux := tape.Install(seed)
	defer mux.Uninstall()
	n := sim.New(mux)
	if err := s.AddAll(n); err != nil {
		var pe *sim.PanicError
		if errors.As(err, &pe) {
			return pbt.Failf("panic:stale-construct", pe.Error()+"\n"+pe.Stack)
		}
		return nil // refused at construction: fine
	}
	if err := n.Run(sim.FromList(sched), 100000); err != nil {
		return simErr("stale-sign", err)
	}
	if !meaningful {
		return nil
	}
	for _, p := range n.Parties {
		if o := p.Outcome(); o.Finished {
			return pbt.Failf("stale-signer-yields-signature:"+scheme, fmt.Sprintf("party %q obtained a signature although a signer used pre-refresh material", p.Name))
		}
	}
	return nil
}

var prop = pbt.Define(pbt.Prop[Case]{Kind: "refresh-history", Run: run, Class: func(c Case) (string, bool) {
	s := lastShape
	nt := strings.Contains(s, "R") && (strings.ContainsAny(s[strings.Index(s, "R"):], "MXS"))
	return fmt.Sprintf("%s|%s|n=%d|t=%d|%s", c.Scheme, c.Source, c.N, c.T, s), nt
}})

func gen(t *rapid.T, scheme string, maxN, maxOps, maxRefresh int) Case {
	c := Case{Scheme: scheme, Source: rapid.SampledFrom([]string{"dealer", "keygen"}).Draw(t, "source")}
	if scheme == proto.SchemeCMP {
		c.Source = "dealer"
	}
	if scheme == proto.SchemeDoerner {
		c.N, c.T, c.Source = 2, 1, "keygen"
	} else {
		c.N = rapid.IntRange(2, maxN).Draw(t, "n")
		c.T = rapid.IntRange(0, c.N-1).Draw(t, "t")
	}
	c.Family = rapid.SampledFrom(fix.UTF8Families).Draw(t, "family")
	c.Seed = rapid.Uint64Range(1, 1<<40).Draw(t, "seed")
	n := rapid.IntRange(1, maxOps).Draw(t, "nops")
	refreshes := 0
	kinds := []string{"refresh", "refresh", "restore", "sign", "sign-stale", "reconstruct", "reconstruct"}
	for i := 0; i < n; i++ {
		k := rapid.SampledFrom(kinds).Draw(t, "op")
		if i == 0 {
			k = "refresh" // histories without a refresh are not interesting for this property
		}
		if k == "refresh" {
			if refreshes >= maxRefresh {
				k = "reconstruct"
			} else {
				refreshes++
			}
		}
		op := Op{Kind: k, Pick: rapid.IntRange(0, 1000).Draw(t, "pick")}
		op.Back = rapid.SliceOfN(rapid.IntRange(0, 3), 0, 5).Draw(t, "back")
		if k == "refresh" || k == "sign" || k == "sign-stale" {
			op.Sched = rapid.SliceOfN(rapid.IntRange(0, 8191), 0, 30).Draw(t, "sched")
		}
		c.Ops = append(c.Ops, op)
	}
	return c
}

func TestCheap(t *testing.T) {
	rapid.Check(t, func(rt *rapid.T) {
		scheme := rapid.SampledFrom([]string{proto.SchemeFrost, proto.SchemeFrostTap, proto.SchemeDoerner}).Draw(rt, "scheme")
		prop.One(rt, gen(rt, scheme, 5, 7, 3))
	})
}

func TestCMP(t *testing.T) {
	rapid.Check(t, func(rt *rapid.T) {
		maxN, maxOps, maxRef := 2, 3, 1
		if ev.Get().Thorough() {
			maxN, maxOps, maxRef = 3, 5, 2
		}
		prop.One(rt, gen(rt, proto.SchemeCMP, maxN, maxOps, maxRef))
	})
}

var _ = sort.Ints
